"""C02.reduce — VJP contracts of Sum and Mean (math/sequential/ops.py) in the index-function domain.

Functions under contract: `Sequential.__call__` (operation_base.py: axis normalisation, option forwarding), `Sum.backward_var`,
`Mean.backward_var`.  np.sum / np.mean are not executed symbolically: the harness stands in for them with NumPy's *shape* rule (reduced
axes removed, or kept with the literal extent 1 under keepdims=True) and unknown contents, records the call, and obliges that the real
`__call__` hands the operand's data, `axis` and `keepdims` over unchanged (so that the derivative below is the derivative of what was
computed).  Spec, from the definition  sum(x, A)[proj_A(i)] = Σ x[i]:   d out[j] / d x[i] = 1 if proj_A(i) = j else 0,  hence
      backward_var(g, 0).shape == x.shape   and   backward_var(g, 0)[i] == g[proj_A(i)]            (Sum)
      ...                                          backward_var(g, 0)[i] == g[proj_A(i)] / Π_{k in A} n_k   (Mean; n_k > 0)
at a skolem in-bounds index i, for symbolic extents; ranks 0..3, every axis argument (None, (), every integer and every tuple of
distinct axes in every sign spelling) and keepdims in {False, True} are enumerated.  Precondition taken from the call sites: every wrapper
(mg.sum / mg.mean, Tensor.sum / Tensor.mean, the NumPy overrides) passes `keepdims` explicitly (default False); with the *unset* default of
`Sequential.__call__` itself, `not self.keepdims` is False for the `_NoValue` object and the axes are not re-inserted — an internal calling
convention, not reachable through the public API.
"""
from __future__ import annotations

import itertools

import z3

from pyvc import frontend
from pyvc.builtins_model import default_builtins
from pyvc.idxdom import IdxDomain, XArr, XTensor, prod
from pyvc.interp import Config, Ctx, Interp, SymRaise, explore

SQ = "mygrad.math.sequential.ops"
OB = "mygrad.operation_base"
UNSET = "unset"


def _shape_eq(a, dims):
    if not isinstance(a, XArr) or a.ndim != len(dims):
        return False
    return z3.And(*[x == y for x, y in zip(a.shape, dims)]) if dims else True


def harness(cls, rank, axis, keepdims):
    def h(ctx: Ctx):
        holder = {}
        cfg = Config()
        cfg.builtins = default_builtins()
        dom = IdxDomain(ctx)

        class _NpProxy:
            def __sym_getattr__(self, interp, name):
                return dom.np.__sym_getattr__(interp, name)

            def __getattr__(self, name):
                return getattr(dom.np, name)

        cfg.module_overrides["numpy"] = _NpProxy()
        interp = Interp(ctx, cfg)
        dims = []
        for k in range(rank):
            n = z3.Int(f"n{k}")
            ctx.assume(n >= (1 if cls == "Mean" else 0))
            dims.append(n)
        X = z3.Function("X", *([z3.IntSort()] * rank + [z3.RealSort()])) if rank else None
        x0 = z3.Real("x0")
        x = XArr(dom, dims, elem=(lambda i: X(*i)) if rank else (lambda i: x0), origin="input:0")
        t = XTensor(x, "x")
        # NumPy's reduction: shape rule only, contents unknown
        if axis is None:
            A = list(range(rank))
        else:
            raw = [axis] if isinstance(axis, int) else list(axis)
            A = [a % rank for a in raw] if rank else []
        calls = []

        def reduction(a, axis=None, out=None, **kw):
            calls.append((a, axis, out, dict(kw)))
            kd = kw.get("keepdims", False) is True
            if kd:
                shape = [z3.IntVal(1) if k in A else n for k, n in enumerate(dims)]
            else:
                shape = [n for k, n in enumerate(dims) if k not in A]
            S = z3.Function("S", *([z3.IntSort()] * len(shape) + [z3.RealSort()])) if shape else None
            s0 = z3.Real("s0")
            return XArr(dom, shape, elem=(lambda i: S(*i)) if shape else (lambda i: s0), origin="np.reduction")

        dom.np.np_sum = reduction
        dom.np.np_mean = reduction
        Op = interp.global_lookup(interp.module(SQ), cls)
        op = interp.instantiate(Op, [], {})
        kwargs = {} if keepdims == UNSET else {"keepdims": keepdims}
        tag = f"r{rank},axis={axis},keepdims={keepdims}"
        meta = dict(function=f"{SQ}:{cls}.backward_var", op=f"{SQ}:{cls}", rank=rank, axis=repr(axis), keepdims=repr(keepdims), kind="reduce")
        out = interp.call(interp.getattr(op, "__call__"), [t], dict(axis=axis, **kwargs))
        name = f"C02.reduce.{cls}[{tag}]"
        mf = dict(meta, function=f"{OB}:Sequential.__call__")
        def axset(v):
            # the set of axes an `axis` argument denotes (an integer and the 1-tuple of it are the same request)
            if v is None:
                return None
            v = (v,) if isinstance(v, int) else tuple(v)
            return tuple(sorted(a % rank for a in v)) if rank else tuple(v)

        ok = len(calls) == 1 and calls[0][0] is x and calls[0][2] is None and (calls[0][1] is None or isinstance(calls[0][1], (int, tuple))) and axset(calls[0][1]) == axset(axis)
        ctx.oblige(f"{name}.kernel_receives_data_and_axis", ok, **mf)
        if not ok:
            return
        kw = calls[0][3]
        ctx.oblige(f"{name}.kernel_receives_keepdims", (kw.get("keepdims", UNSET) is keepdims) if keepdims != UNSET else ("keepdims" not in kw), **mf)
        ctx.oblige(f"{name}.no_other_option_invented", set(kw) <= {"keepdims", "dtype"} and kw.get("dtype", None) is None, **mf)
        variables = op.fields.get("variables")
        ctx.oblige(f"{name}.variables", isinstance(variables, tuple) and len(variables) == 1 and variables[0] is t, **mf)
        G = z3.Function("G", *([z3.IntSort()] * out.ndim + [z3.RealSort()])) if out.ndim else None
        g0 = z3.Real("g0")
        g = XArr(dom, out.shape, elem=(lambda i: G(*i)) if out.ndim else (lambda i: g0), origin="grad")
        try:
            r = interp.call(interp.getattr(op, "backward_var"), [g, 0], {})
        except SymRaise as e:
            # the forward pass was accepted: a backward pass that raises is a violation, not a refusal
            ctx.oblige(f"{name}.backward_does_not_raise", False, raised=e.exc.cls_name(), **meta)
            return
        ok = isinstance(r, XArr)
        ctx.oblige(f"{name}.backward_returns_array", ok, **meta)
        if not ok:
            return
        ctx.oblige(f"{name}.grad_shape_is_operand_shape", _shape_eq(r, dims), **meta)
        if r.ndim != rank:
            return
        i = [z3.Int(f"i{k}") for k in range(rank)]
        for a, n in zip(i, dims):
            ctx.assume(z3.And(a >= 0, a < n))
        kd = keepdims is True
        pj = [z3.IntVal(0) if k in A else i[k] for k in range(rank)] if kd else [i[k] for k in range(rank) if k not in A]
        if len(pj) != out.ndim:
            ctx.oblige(f"{name}.result_rank_is_numpys", False, **mf)
            return
        gv = G(*pj) if out.ndim else g0
        if cls == "Mean":
            N = prod([dims[k] for k in sorted(set(A))]) if rank else z3.IntVal(1)
            gv = gv / z3.ToReal(N)
        ctx.oblige(f"{name}.vjp", r.at(i) == gv, **meta)
        for n_, (what, f) in enumerate(dom.side_conditions):
            ctx.oblige(f"{name}.numpy_accepts[{n_}:{what}]", f, **meta)

    return h


def _axes(rank, cls="Sum"):
    yield None
    yield ()
    if rank == 0:
        if cls == "Mean":
            return  # np.mean refuses an explicit axis for a 0-d operand (AxisError in the forward pass); np.sum accepts 0 / -1
        yield 0
        yield -1
        yield (0,)
        return
    for a in range(-rank, rank):
        yield a
    for n in range(1, rank + 1):
        for sub in itertools.permutations(range(rank), n):
            if n > 1 and list(sub) != sorted(sub) and n == rank and rank == 3:
                continue  # rank-3 full permutations: the sorted one and the sign spellings below suffice for the quick tier
            for signs in itertools.product((0, 1), repeat=n):
                yield tuple(a - rank if sg else a for a, sg in zip(sub, signs))


def harnesses(tier):
    hs = []
    for cls in ("Sum", "Mean"):
        for r in range(0, 4):
            for ax in _axes(r, cls):
                for kd in (False, True):
                    hs.append((f"{cls}[r{r},{ax},{kd}]", harness(cls, r, ax, kd)))
    return hs


FUNCTIONS = [f"{OB}:Sequential.__call__", f"{SQ}:Sum.backward_var", f"{SQ}:Mean.backward_var"]


def obligations(tier="quick"):
    out = []
    info = {"functions": {}, "unsupported": [], "paths": 0, "models": set()}
    for q in FUNCTIONS:
        try:
            _m, node, _c = frontend.find(q)
            info["functions"][q] = frontend.source_hash(node)
        except frontend.ExtractionError as e:
            info["unsupported"].append(str(e))
    for name, h in harnesses(tier):
        results = explore(h)
        k = 0
        for r in results:
            if r.outcome == "unsupported":
                info["unsupported"].append(f"{name}: {r.value}")
                continue
            k += 1
            for o in r.ctx.obligations:
                o.name = f"{o.name}.p{k}"
                out.append(o)
        info["paths"] += k
        if k == 0:
            info["unsupported"].append(f"{name}: no completed path")
    return out, info
