"""C16.swv — contract of sliding_window_view(arr, window_shape, step, dilation).

Inputs (precondition = type invariants): arr an ndarray with ndim = n (enumerated 1..N_MAX), shape
x_0..x_{n-1} >= 0, element size nbyte > 0; window_shape a tuple of m integers (m enumerated,
m <= n and the case m = n+1); step an integer or a tuple of m integers; dilation None, an integer,
a tuple of m integers (and the wrong-length case m+1).  All integer *values* are unbounded.

Spec (from the property statement, not from the code):
  Accept  <=>  m <= n  /\\  all W_k > 0  /\\  all S_k > 0  /\\  all W_k <= x_k
               /\\ (dilation given => len = m /\\ all D_k > 0 /\\ all W_k * D_k <= x_k)
  raises  <=>  not Accept
  on return: out_shape = ((x_k - ((W_k-1) D_k + 1)) // S_k + 1)_k ++ leading ++ W
             strides   = (S_k cs_k nb)_k ++ (cs_j nb)_leading ++ (D_k cs_k nb)_k   with cs_j = prod_{i>j} x_i
             (hence out[g.., n.., w..] is the element arr[n.., g_k S_k + w_k D_k]),
             every addressed index satisfies 0 <= g_k S_k + w_k D_k < x_k, and writeable = False,
             and the view is taken of `arr` or of its C-contiguous copy (same values).
"""
from __future__ import annotations

import z3

from pyvc import frontend
from pyvc.builtins_model import default_builtins
from pyvc.intdom import IntNp, IVec
from pyvc.interp import Config, Ctx, Interp, SymRaise, Unsupported, explore

UT = "mygrad.nnet.layers.utils"
N_MAX = {"quick": 3, "thorough": 4}


class IArr:
    """ndarray stand-in for shape/stride arithmetic.

    A general (possibly non-contiguous) array: one symbolic byte stride per axis.  `flags["C_CONTIGUOUS"]` is NumPy's own
    definition of the flag (numpy/_core/src/multiarray/flagsobject.c, relaxed strides): true iff some axis has length 0, or
    every axis of length != 1 has stride itemsize*prod(shape[j+1:]) -- the stride of a length-1 axis is unconstrained.
    `canonical=True` is the array np.ascontiguousarray / a fresh allocation returns: every stride canonical.
    """

    def __init__(self, shape, nbyte, strides=None, source=None):
        self.shape = tuple(shape)
        self.ndim = len(self.shape)
        self.nbyte = nbyte
        self.itemsize = nbyte
        self.source = source
        cs = []
        acc = 1
        for x in reversed(self.shape):
            cs.append(acc)
            acc = acc * x
        self.cs = list(reversed(cs))
        canon = tuple(c * nbyte for c in self.cs)
        self._strides = canon if strides is None else tuple(strides)
        if strides is None:
            contig = z3.BoolVal(True)
        else:
            contig = z3.Or(
                z3.Or(*[x == 0 for x in self.shape]) if self.shape else z3.BoolVal(False),
                z3.And(*[z3.Or(x == 1, st == c) for x, st, c in zip(self.shape, self._strides, canon)]) if self.shape else z3.BoolVal(True),
            )
        self.contig = contig
        self.flags = {"C_CONTIGUOUS": contig, "C": contig}

    @property
    def strides(self):
        return self._strides


class View:
    def __init__(self, arr, shape, strides, writeable):
        self.arr, self.shape, self.strides, self.writeable = arr, shape, strides, writeable


def harness(n, m, step_kind, dil_kind, dil_len_ok=True):
    def h(ctx: Ctx):
        cfg = Config()
        cfg.builtins = default_builtins()
        record = {}

        def ascontiguousarray(a):
            return IArr(a.shape, a.nbyte, None, source=a)

        def as_strided(a, shape=None, strides=None, writeable=True, **k):
            v = View(a, shape, strides, writeable)
            record["view"] = v
            return v

        cfg.module_overrides["numpy"] = IntNp(extra={"ascontiguousarray": ascontiguousarray})
        cfg.global_overrides[("numpy.lib.stride_tricks", "as_strided")] = as_strided
        interp = Interp(ctx, cfg)
        xs = [z3.Int(f"x{j}") for j in range(n)]
        for x in xs:
            ctx.assume(x >= 0)
        nb = z3.Int("nbyte")
        ctx.assume(nb > 0)
        st = [z3.Int(f"st{j}") for j in range(n)]  # byte strides of the caller's array: arbitrary integers
        arr = IArr(xs, nb, st)
        contig = arr.contig
        W = [z3.Int(f"W{k}") for k in range(m)]
        if step_kind == "int":
            s = z3.Int("S")
            S = [s] * m
            step = s
        else:
            S = [z3.Int(f"S{k}") for k in range(m)]
            step = tuple(S)
        if dil_kind is None:
            D = [z3.IntVal(1)] * m
            dil = None
            dl = m
        elif dil_kind == "int":
            d = z3.Int("D")
            D = [d] * m
            dil = d
            dl = m
        else:
            dl = m if dil_len_ok else m + 1
            Dv = [z3.Int(f"D{k}") for k in range(dl)]
            D = Dv[:m]
            dil = tuple(Dv)
        lead = n - m
        tag = f"C16.swv[n={n},m={m},step={step_kind},dil={dil_kind}{'' if dil_len_ok else ',badlen'}]"
        meta = dict(function=f"{UT}:sliding_window_view", config=dict(n=n, m=m, step=step_kind, dilation=dil_kind))
        # ---- spec acceptance predicate -------------------------------------------------------
        acc = [z3.BoolVal(m <= n)]
        acc += [w > 0 for w in W] + [s_ > 0 for s_ in S]
        if m <= n:
            acc += [W[k] <= xs[lead + k] for k in range(m)]
        if dil_kind is not None:
            acc.append(z3.BoolVal(dl == m))
            acc += [d_ > 0 for d_ in (Dv if dil_kind == "seq" else D)]
            if m <= n:
                acc += [W[k] * D[k] <= xs[lead + k] for k in range(m)]
        Accept = z3.And(*acc)
        f = interp.global_lookup(interp.module(UT), "sliding_window_view")
        try:
            r = interp.call(f, [arr, tuple(W), step, dil], {})
        except SymRaise as e:
            ctx.oblige(f"{tag}.raises_only_if_rejected", z3.Not(Accept), raised=e.exc.cls_name(), **meta)
            ctx.oblige(f"{tag}.raise_kind", e.exc.cls in (TypeError, ValueError), raised=e.exc.cls_name(), **meta)
            return
        ctx.oblige(f"{tag}.returns_only_if_accepted", Accept, **meta)
        v = record.get("view")
        ctx.oblige(f"{tag}.returns_the_strided_view", v is not None and r is v, **meta)
        if v is None or m > n:
            return
        src = v.arr
        ctx.oblige(f"{tag}.view_of_arr_or_contiguous_copy", src is arr or src.source is arr, **meta)
        ctx.oblige(f"{tag}.read_only", v.writeable is False, **meta)
        exp_shape = [(xs[lead + k] - ((W[k] - 1) * D[k] + 1)) / S[k] + 1 for k in range(m)] + xs[:lead] + W
        ok_len = isinstance(v.shape, tuple) and isinstance(v.strides, tuple) and len(v.shape) == len(exp_shape) and len(v.strides) == len(exp_shape)
        ctx.oblige(f"{tag}.rank", ok_len, **meta)
        if not ok_len:
            return
        # floor-division note: S_k > 0 on this path (validated), SMT `div` = python `//` there
        for i, (a, b) in enumerate(zip(v.shape, exp_shape)):
            ctx.oblige(f"{tag}.out_shape[{i}]", a == b, **meta)
        # element identity: out[g.., n.., w..] IS src[n.., g*step + w*dilation] (same byte offset from the start of src), where
        # src is arr itself or its contiguous copy.  Stated per axis group (equivalent to equality of the offset sums, since every index ranges from 0 independently): the
        # offsets are compared under the index ranges, so strides of axes whose only index is 0 are unconstrained.
        G = [z3.Int(f"g{k}") for k in range(m)]
        Wi = [z3.Int(f"w{k}") for k in range(m)]
        Ni = [z3.Int(f"n{j}") for j in range(lead)]
        rng_h = [z3.And(0 <= G[k], G[k] < exp_shape[k], 0 <= Wi[k], Wi[k] < W[k]) for k in range(m)] + [z3.And(0 <= Ni[j], Ni[j] < xs[j]) for j in range(lead)]
        in_range = z3.And(*rng_h)
        sst = src.strides
        for j in range(lead):
            ctx.oblige(f"{tag}.element_offset.lead[{j}]", z3.Implies(in_range, v.strides[m + j] * Ni[j] == sst[j] * Ni[j]), **meta)
        for k in range(m):
            ctx.oblige(
                f"{tag}.element_offset.window[{k}]",
                z3.Implies(in_range, v.strides[k] * G[k] + v.strides[m + lead + k] * Wi[k] == sst[lead + k] * (G[k] * S[k] + Wi[k] * D[k])),
                **meta,
            )
        # in-bounds: every addressed element lies inside arr (no memory outside arr is exposed)
        for k in range(m):
            g, w = z3.Int(f"g{k}"), z3.Int(f"w{k}")
            X = exp_shape[k]
            hyp = z3.And(0 <= g, g < X, 0 <= w, w < W[k])
            idx = g * S[k] + w * D[k]
            # lemma instances (valid facts of integer arithmetic, themselves discharged as obligations)
            l1 = z3.Implies(z3.And(S[k] > 0, g <= X - 1), g * S[k] <= (X - 1) * S[k])
            l2 = z3.Implies(z3.And(D[k] > 0, w <= W[k] - 1), w * D[k] <= (W[k] - 1) * D[k])
            l3 = z3.Implies(z3.And(S[k] > 0), (X - 1) * S[k] <= xs[lead + k] - ((W[k] - 1) * D[k] + 1))
            l4 = z3.Implies(z3.And(g >= 0, S[k] > 0, w >= 0, D[k] > 0), z3.And(g * S[k] >= 0, w * D[k] >= 0))
            ctx.oblige(f"{tag}.lemma.mono_g[{k}]", l1, kind="lemma", **meta)
            ctx.oblige(f"{tag}.lemma.mono_w[{k}]", l2, kind="lemma", **meta)
            ctx.oblige(f"{tag}.lemma.floor[{k}]", l3, kind="lemma", **meta)
            ctx.oblige(f"{tag}.lemma.nonneg[{k}]", l4, kind="lemma", **meta)
            ctx.oblige(f"{tag}.in_bounds[{k}]", z3.Implies(z3.And(hyp, l1, l2, l3, l4), z3.And(0 <= idx, idx < xs[lead + k])), **meta)
            ctx.oblige(f"{tag}.at_least_one_placement[{k}]", X >= 1, **meta)

    return h


def obligations(tier="quick"):
    out = []
    info = {"functions": {}, "unsupported": [], "paths": 0, "configs": 0}
    try:
        _m, node, _c = frontend.find(f"{UT}:sliding_window_view")
        info["functions"][f"{UT}:sliding_window_view"] = frontend.source_hash(node)
    except frontend.ExtractionError as e:
        info["unsupported"].append(str(e))
        return out, info
    nmax = N_MAX.get(tier, 3)
    configs = []
    for n in range(1, nmax + 1):
        for m in range(1, min(n, 3) + 1):
            for sk in ("int", "seq"):
                for dk in (None, "int", "seq"):
                    configs.append((n, m, sk, dk, True))
            configs.append((n, m, "seq", "seq", False))
        configs.append((n, n + 1, "int", None, True))  # more window dims than array dims
    for cfg in configs:
        info["configs"] += 1
        results = explore(harness(*cfg))
        k = 0
        for r in results:
            if r.outcome == "unsupported":
                info["unsupported"].append(f"swv{cfg}: {r.value}")
                continue
            k += 1
            for o in r.ctx.obligations:
                o.name = f"{o.name}.p{k}"
                out.append(o)
        info["paths"] += k
        if k == 0:
            info["unsupported"].append(f"swv{cfg}: no completed path")
    return out, info
