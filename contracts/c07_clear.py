"""C07.clear / C07.null / C06.pull — per-call contracts of Tensor.clear_graph, Tensor.null_grad and of the
nulling step of collect_all_tensors_and_clear_grads.

Tensor.clear_graph(self)   (recursive calls replaced by the function's own contract = induction on the
                            number of tensors that still have a creator; `self._creator` is set to None
                            *before* recursing, which is the decreasing measure)
  ensures  self._ops and self._view_children are emptied, self._creator is None
  ensures  if self._base is not None, the property getter `grad` was evaluated *before* `_creator`,
           `_ops`, `_view_children` were touched (C06.pull: the view gradient is cached while the
           graph information needed to compute it still exists)
  ensures  clear_graph was invoked exactly on old_creator.variables[0..n) (each position, in order), and
           not at all when there was no creator
  frame    no other field of `self`, no field of any other tensor is written by this call itself
Tensor.null_grad(self, _clear_view_info)
  ensures  _grad and _view_grad are None; `_base` dropped iff _clear_view_info and base is set and creator is None;
           returns self; nothing else written
"""
from __future__ import annotations

import z3

from pyvc import frontend
from pyvc.builtins_model import default_builtins
from pyvc.graphdom import Heap, NdModel, TensorModel
from pyvc.interp import BoundMethod, Config, Ctx, Interp, LoopSpec, SRef, SSeq, SymRaise, Unsupported, explore, to_z3

TB = "mygrad.tensor_base"
UT = "mygrad._utils"
I = z3.IntSort()
Bo = z3.BoolSort()


class Container:
    """`_ops` (set) / `_view_children` (WeakRefIterable): only emptiness is observable here."""

    def __init__(self, ctx, owner, fld, log):
        self.ctx, self.owner, self.fld, self.log = ctx, owner, fld, log

    def __sym_getattr__(self, interp, name):
        if name == "clear":
            def clear():
                self.log.append(("clear", self.fld, self.owner.ref))
                key = ("Tensor", self.fld + "_empty")
                self.ctx.heap[key] = z3.Store(self.ctx.heap[key], self.owner.ref, True)
            return clear
        raise Unsupported(f"container method .{name}")


def setup(ctx):
    cfg = Config()
    cfg.builtins = default_builtins()
    heap = Heap(ctx, tensor_fields={"_ops_empty": Bo, "_view_children_empty": Bo})
    ctx.field("Operation", "variables", z3.ArraySort(I, I))
    ctx.field("Operation", "nvars", I)
    interp = Interp(ctx, cfg)
    TensorCls = interp.global_lookup(interp.module(TB), "Tensor")
    log = []

    class TM(TensorModel):
        def getattr(self, interp_, o, name):
            if name in ("_ops", "_view_children"):
                return Container(ctx, o, name, log)
            if name == "grad":
                log.append(("pull", "grad", o.ref))
                return None
            return super().getattr(interp_, o, name)

        def setattr(self, interp_, o, name, v):
            log.append(("set", name, o.ref))
            return super().setattr(interp_, o, name, v)

    class OM:
        def getattr(self, interp_, o, name):
            if name == "variables":
                arr = z3.Select(ctx.heap[("Operation", "variables")], o.ref)
                ln = z3.Select(ctx.heap[("Operation", "nvars")], o.ref)
                return SSeq(ln, lambda j: SRef("Tensor", z3.Select(arr, to_z3(j))), "tuple", "creator.variables")
            raise Unsupported(f"Operation.{name}")

    cfg.ref_models["Tensor"] = TM(heap, TensorCls)
    cfg.ref_models["Operation"] = OM()
    return cfg, heap, interp, TensorCls, log


def clear_graph_harness(ctx: Ctx):
    cfg, heap, interp, TensorCls, log = setup(ctx)
    me = SRef("Tensor", z3.Int("self"))
    ctx.assume(me.ref >= 1)
    H0 = dict(ctx.heap)
    creator0 = H0[("Tensor", "_creator")][me.ref]
    vars0 = H0[("Operation", "variables")][creator0]
    n0 = H0[("Operation", "nvars")][creator0]
    ctx.assume(n0 >= 0)
    CALLED = z3.Function("CALLED", I, I)  # k-th recursive call's receiver
    ncalls = {"n": 0}
    meta = dict(function=f"{TB}:Tensor.clear_graph")

    def rec_contract(interp_, args, kwargs):
        # the function's own contract for the callee; here only *which* tensor it is called on matters
        recv = args[0]
        k = ctx.ghost.get("cur_k")
        log.append(("recurse", recv.ref, k))
        ctx.oblige("C07.clear.recursion_on_kth_variable", recv.ref == vars0[k] if k is not None else False, **meta)
        ctx.oblige("C07.clear.creator_dropped_before_recursion", ctx.heap[("Tensor", "_creator")][me.ref] == 0, **meta)
        return None

    # the top-level call is executed from its AST; nested calls go to the summary
    real = TensorCls.lookup(interp, "clear_graph")[0]
    depth = {"d": 0}

    def dispatch(interp_, args, kwargs):
        if depth["d"] == 0:
            depth["d"] += 1
            try:
                return interp_.call_func(real, args, kwargs)
            finally:
                depth["d"] -= 1
        return rec_contract(interp_, args, kwargs)

    cfg.summaries[f"{TB}:Tensor.clear_graph"] = dispatch
    tS = z3.Int("t*")

    def frame_clauses():
        out = []
        for key, old in H0.items():
            cur = ctx.heap[key]
            if key[0] == "Tensor" and key[1] in ("_ops_empty", "_view_children_empty", "_creator"):
                out.append((f"frame.{key[1]}", z3.Implies(tS != me.ref, cur[tS] == old[tS])))
            else:
                out.append((f"frame.{key[0]}.{key[1]}", cur == old))
        return out

    def inv(interp_, env, k):
        return frame_clauses() + [("own_cleared", z3.And(ctx.heap[("Tensor", "_creator")][me.ref] == 0, ctx.heap[("Tensor", "_ops_empty")][me.ref], ctx.heap[("Tensor", "_view_children_empty")][me.ref]))]

    spec = LoopSpec(invariant=inv, modifies=("var",), heap_modifies=[])
    spec.expect_iterable = (n0, lambda j: vars0[j])  # the recursion must reach every input of the old creator
    cfg.loop_specs[(f"{TB}:Tensor.clear_graph", 0)] = spec
    try:
        interp.call(real, [me], {})
    except SymRaise as e:
        ctx.oblige("C07.clear.no_exception", False, raised=e.exc.cls_name(), **meta)
        return
    for nm, fml in inv(interp, None, None):
        ctx.oblige(f"C07.clear.post.{nm}", fml, **meta)
    # C06.pull: if the tensor is a view, `.grad` was read before anything was cleared
    has_base = H0[("Tensor", "_base")][me.ref] != 0
    first_effect = next((i for i, e in enumerate(log) if e[0] in ("clear", "set")), None)
    pulls = [i for i, e in enumerate(log) if e[0] == "pull"]
    pulled_first = bool(pulls) and (first_effect is None or pulls[0] < first_effect)
    ctx.oblige("C06.pull.grad_evaluated_before_clearing", z3.Implies(has_base, z3.BoolVal(pulled_first)), **meta)
    ctx.oblige("C07.clear.no_recursion_without_creator", z3.Implies(creator0 == 0, z3.BoolVal(not any(e[0] == "recurse" for e in log))), **meta)


def null_grad_harness(flag):
    def h(ctx: Ctx):
        cfg, heap, interp, TensorCls, log = setup(ctx)
        me = SRef("Tensor", z3.Int("self"))
        ctx.assume(me.ref >= 1)
        H0 = dict(ctx.heap)
        f = TensorCls.lookup(interp, "null_grad")[0]
        meta = dict(function=f"{TB}:Tensor.null_grad", _clear_view_info=flag)
        r = interp.call(f, [me], {"_clear_view_info": flag} if flag is not None else {})
        tag = f"C07.null[{flag}]"
        cur = ctx.heap
        ctx.oblige(f"{tag}.returns_self", isinstance(r, SRef) and r.ref.eq(me.ref), **meta)
        ctx.oblige(f"{tag}.grad_none", cur[("Tensor", "_grad")][me.ref] == 0, **meta)
        ctx.oblige(f"{tag}.view_grad_none", cur[("Tensor", "_view_grad")][me.ref] == 0, **meta)
        b0, c0 = H0[("Tensor", "_base")][me.ref], H0[("Tensor", "_creator")][me.ref]
        drop = z3.And(z3.BoolVal(bool(flag)), b0 != 0, c0 == 0)
        ctx.oblige(f"{tag}.base_rule", cur[("Tensor", "_base")][me.ref] == z3.If(drop, 0, b0), **meta)
        tS = z3.Int("t*")
        for key, old in H0.items():
            if key[0] == "Tensor" and key[1] in ("_grad", "_view_grad", "_base"):
                ctx.oblige(f"{tag}.frame.{key[1]}", z3.Implies(tS != me.ref, cur[key][tS] == old[tS]), **meta)
            else:
                ctx.oblige(f"{tag}.frame.{key[0]}.{key[1]}", cur[key] == old, **meta)

    return h


def obligations(tier="quick"):
    out = []
    info = {"functions": {}, "unsupported": [], "paths": 0}
    for q in (f"{TB}:Tensor.clear_graph", f"{TB}:Tensor.null_grad"):
        try:
            _m, node, _c = frontend.find(q)
            info["functions"][q] = frontend.source_hash(node)
        except frontend.ExtractionError as e:
            info["unsupported"].append(str(e))
    hs = [("clear_graph", clear_graph_harness)] + [(f"null_grad[{f}]", null_grad_harness(f)) for f in (None, False, True)]
    for name, h in hs:
        results = explore(h)
        k = 0
        for r in results:
            if r.outcome == "unsupported":
                info["unsupported"].append(f"{name}: {r.value}")
                continue
            k += 1
            for o in r.ctx.obligations:
                o.name = f"{o.name}.p{k}"
                out.append(o)
        info["paths"] += k
        if k == 0:
            info["unsupported"].append(f"{name}: no completed path")
    return out, info
