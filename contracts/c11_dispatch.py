"""C11.dispatch / C03.dispatch — contracts of Tensor.__array_ufunc__ and Tensor.__array_function__ (NumPy's override protocol).

Tensor.__array_ufunc__(self, ufunc, method, *inputs, **kwargs)         [out := the single element of kwargs.pop("out", (None,))]
  ufunc registered as differentiable (key of _REGISTERED_UFUNC):
        returns  getattr(_REGISTERED_UFUNC[ufunc], method)(*inputs, **kwargs_without_out, out=out)
        -- every operand and every remaining keyword is handed over *as the very object the caller passed* (nothing is converted
           here, so the mygrad function sees what `mg.<ufunc>(...)` would have seen: C11), in order
  ufunc in _REGISTERED_BOOL_ONLY_UFUNC:
        returns  getattr(ufunc, method)(*u(inputs), **kwargs_without_out [, out=u(out) if out is not None])
        where u(t) = t.data if t is a Tensor else t itself (Python scalars must reach NumPy as Python scalars: C03)
  ufunc in _REGISTERED_CONST_ONLY_UFUNC:
        some input or `out` is a Tensor with constant False  ->  raises ValueError and NumPy's ufunc is never invoked
        otherwise                                            ->  as the bool-only case
  anything else: returns NotImplemented
  Frame: no operand is mutated (no attribute of any tensor operand is written).

Tensor.__array_function__(self, func, types, args, kwargs)
  func registered as differentiable: returns _REGISTERED_DIFFERENTIABLE_NUMPY_FUNCS[func](*args, **kwargs), objects unchanged
  func in _REGISTERED_NO_DIFF_NUMPY_FUNCS: returns func(*u(args), **{k: u(v)}), u as above
  anything else: NotImplemented

Enumerated: number of operands 1..3, operand kinds {non-constant tensor, constant tensor, ndarray, python scalar} per position, out in
{absent, None, tensor(nc), tensor(c), ndarray}, method in {__call__, reduce, at}.  Constant flags are concrete per kind here because the
function's behaviour is a case split on them; everything else (values, dtypes, shapes) is opaque, i.e. arbitrary.
"""
from __future__ import annotations

import itertools

import z3

from pyvc import frontend
from pyvc.builtins_model import default_builtins
from pyvc.interp import Config, Ctx, ExcInst, Interp, Opaque, SObj, SymRaise, Unsupported, explore

TB = "mygrad.tensor_base"


class Data:
    def __init__(self, name):
        self.name = name

    def __repr__(self):
        return f"<data {self.name}>"


class Registry:
    """dict/set stand-in: membership and lookup decided by the harness' category"""

    def __init__(self, member, value=None):
        self.member, self.value = member, value

    def __sym_contains__(self, interp, k):
        return self.member(k)

    def __sym_getitem__(self, interp, k):
        if not self.member(k):
            raise SymRaise(ExcInst(KeyError, (k,)))
        return self.value


class Callee:
    """records calls of getattr(<callee>, method)(...)"""

    def __init__(self, name, rec):
        self.name, self.rec = name, rec

    def __sym_getattr__(self, interp, attr):
        def bound(*args, **kwargs):
            self.rec.append((self.name, attr, args, kwargs))
            return self.result

        return bound

    def __call__(self, *args, **kwargs):  # plain call (array_function)
        self.rec.append((self.name, "__call__", args, kwargs))
        return self.result


class NP:
    """NumPy facts used by conversions the dispatcher might perform: asarray of an ndarray is that ndarray; asarray of anything
    else allocates a new array object (a Python scalar stops being a Python scalar: NumPy then promotes it as an array)."""

    @staticmethod
    def asarray(a, dtype=None, order=None, **k):
        if isinstance(a, Data) or (isinstance(a, Opaque) and str(a.what).startswith("ndarray")):
            return a if dtype is None else Opaque(f"ndarray converted from {a!r}")
        return Opaque(f"ndarray made from {a!r}")

    array = asarray
    asanyarray = asarray

    @staticmethod
    def dtype(x):
        return x


def make_operand(T, kind, name, writes):
    if kind in ("tensor-nc", "tensor-c"):
        o = SObj(T, dict(_constant=(kind == "tensor-c"), data=Data(name)), label=name)
        return o
    if kind == "ndarray":
        return Opaque(f"ndarray {name}")
    return Opaque(f"python scalar {name}")


def unwrapped(x):
    return x.fields["data"] if isinstance(x, SObj) else x


KINDS = ("tensor-nc", "tensor-c", "ndarray", "pyscalar")
OUTS = ("absent", "none", "tensor-nc", "tensor-c", "ndarray")


def ufunc_harness(category, method, kinds, out_kind, extra_kw):
    def h(ctx: Ctx):
        cfg = Config()
        cfg.builtins = default_builtins()
        cfg.module_overrides["numpy"] = NP
        interp = Interp(ctx, cfg)
        T = interp.global_lookup(interp.module(TB), "Tensor")
        rec = []
        ufunc = Callee("numpy-ufunc", rec)
        ufunc.result = Opaque("ndarray result")
        mg_ufunc = Callee("mygrad-ufunc", rec)
        mg_ufunc.result = Opaque("tensor result")
        cfg.global_overrides[(TB, "_REGISTERED_UFUNC")] = Registry(lambda k: category == "diff" and k is ufunc, mg_ufunc)
        cfg.global_overrides[(TB, "_REGISTERED_BOOL_ONLY_UFUNC")] = Registry(lambda k: category == "bool" and k is ufunc)
        cfg.global_overrides[(TB, "_REGISTERED_CONST_ONLY_UFUNC")] = Registry(lambda k: category == "const" and k is ufunc)
        inputs = [make_operand(T, k, f"x{i}", None) for i, k in enumerate(kinds)]
        me = next((x for x in inputs if isinstance(x, SObj)), None)
        out = None
        kwargs = {}
        if out_kind != "absent":
            out = None if out_kind == "none" else make_operand(T, out_kind, "out", None)
            kwargs["out"] = (out,)
        if me is None:
            me = out if isinstance(out, SObj) else None
        if me is None:
            return  # NumPy only calls the override when some operand is a Tensor
        extras = {k: Opaque(f"kw {k}") for k in extra_kw}
        kwargs.update(extras)
        snapshot = {id(x): dict(x.fields) for x in inputs + [out] if isinstance(x, SObj)}
        f = T.lookup(interp, "__array_ufunc__")[0]
        tag = f"C11.dispatch.ufunc[{category},{method},{'/'.join(kinds)},out={out_kind},kw={'+'.join(extra_kw) or '-'}]"
        meta = dict(function=f"{TB}:Tensor.__array_ufunc__", category=category, method=method, operands=list(kinds), out=out_kind)
        nonconst = [x for x in inputs + [out] if isinstance(x, SObj) and x.fields["_constant"] is False]
        try:
            r = interp.call(f, [me, ufunc, method] + inputs, dict(kwargs))
        except SymRaise as e:
            ctx.oblige(f"{tag}.raises_only_for_nonconstant_operand_of_constant_only_ufunc", category == "const" and bool(nonconst) and e.exc.cls is ValueError, raised=e.exc.cls_name(), **meta)
            ctx.oblige(f"{tag}.numpy_not_invoked_when_rejecting", not rec, **meta)
            return
        frame_ok = all(dict(x.fields) == snapshot[id(x)] for x in inputs + [out] if isinstance(x, SObj))
        ctx.oblige(f"{tag}.operands_not_mutated", frame_ok, **meta)
        if category == "none":
            ctx.oblige(f"{tag}.NotImplemented", r is NotImplemented and not rec, **meta)
            return
        if category == "const":
            ctx.oblige(f"{tag}.nonconstant_operand_rejected", not nonconst, **meta)
        ok = len(rec) == 1
        ctx.oblige(f"{tag}.exactly_one_call", ok, calls=len(rec), **meta)
        if not ok:
            return
        who, attr, args, kw = rec[0]
        ctx.oblige(f"{tag}.method_forwarded", attr == method, **meta)
        ctx.oblige(f"{tag}.returns_callee_result", r is (mg_ufunc if category == "diff" else ufunc).result, **meta)
        if category == "diff":
            ctx.oblige(f"{tag}.routed_to_mygrad_ufunc", who == "mygrad-ufunc", **meta)
            ctx.oblige(f"{tag}.operands_identical_in_order", len(args) == len(inputs) and all(a is b for a, b in zip(args, inputs)), **meta)
            ctx.oblige(f"{tag}.out_is_the_single_target", "out" in kw and kw["out"] is out, **meta)
        else:
            ctx.oblige(f"{tag}.routed_to_numpy_ufunc", who == "numpy-ufunc", **meta)
            ctx.oblige(f"{tag}.tensors_unwrapped_everything_else_untouched", len(args) == len(inputs) and all(a is unwrapped(b) for a, b in zip(args, inputs)), **meta)
            if out is None:
                ctx.oblige(f"{tag}.no_out_keyword_invented", "out" not in kw or kw["out"] is None, **meta)
            else:
                ctx.oblige(f"{tag}.out_unwrapped", "out" in kw and kw["out"] is unwrapped(out), **meta)
        ctx.oblige(f"{tag}.other_keywords_identical", set(kw) - {"out"} == set(extras) and all(kw[k] is v for k, v in extras.items()), **meta)

    return h


UC = "mygrad.ufuncs._ufunc_creators"


def ufunc_call_harness(clsname, nin, masked, out_kind):
    """MyGrad<Unary|Binary|BinaryNoMask>Ufunc.__call__ (the public mg.<ufunc>(...) entry point):
    out is a Tensor  -> exactly one out._in_place_op(cls._wrapped_op, *operands, op_kwargs=KW, constant=constant); returns out
    otherwise        -> exactly one Tensor._op(cls._wrapped_op, *operands, op_kwargs=KW, constant=constant, out=out); returned
    KW carries every option the entry point accepts (where= for the masked classes, dtype= always) as the caller's objects --
    the SAME keywords on both branches, so that writing into a tensor target computes what writing into an array target computes."""

    def h(ctx: Ctx):
        cfg = Config()
        cfg.builtins = default_builtins()
        cfg.module_overrides["numpy"] = NP
        rec = []
        ret = Opaque("_op result")
        cfg.summaries[f"{TB}:Tensor._op"] = lambda i_, a, k: (rec.append(("_op", a, k)), ret)[1]
        cfg.summaries[f"{TB}:Tensor._in_place_op"] = lambda i_, a, k: (rec.append(("_in_place_op", a, k)), None)[1]
        interp = Interp(ctx, cfg)
        T = interp.global_lookup(interp.module(TB), "Tensor")
        C = interp.global_lookup(interp.module(UC), clsname)
        wrapped = Opaque("the wrapped Operation class")

        class UfuncCls:
            _wrapped_op = wrapped

        operands = [Opaque(f"operand {i}") for i in range(nin)]
        out = None if out_kind == "none" else (make_operand(T, "tensor-nc", "out", None) if out_kind == "tensor" else Opaque("ndarray out"))
        where, dtype, constant = Opaque("where"), Opaque("dtype"), Opaque("constant")
        kwargs = dict(dtype=dtype, constant=constant)
        if masked:
            kwargs["where"] = where
        f = C.lookup(interp, "__call__")[0]
        tag = f"C11.ufunc_call[{clsname},out={out_kind}]"
        meta = dict(function=f"{UC}:{clsname}.__call__", out=out_kind)
        try:
            r = interp.call(f, [UfuncCls()] + operands + [out], kwargs)
        except SymRaise as e:
            ctx.oblige(f"{tag}.no_exception", False, raised=e.exc.cls_name(), **meta)
            return
        ok = len(rec) == 1
        ctx.oblige(f"{tag}.exactly_one_operation_recorded", ok, **meta)
        if not ok:
            return
        kind, a, k = rec[0]
        if out_kind == "tensor":
            ctx.oblige(f"{tag}.tensor_target_updated_in_place_and_returned", kind == "_in_place_op" and a[0] is out and r is out, **meta)
            a = a[1:]
        else:
            ctx.oblige(f"{tag}.array_target_forwarded_as_out", kind == "_op" and r is ret and k.get("out", "missing") is out, **meta)
            a = a[1:] if (a and a[0] is T) else a
        ctx.oblige(f"{tag}.wrapped_op_and_operands_in_order", len(a) == nin + 1 and a[0] is wrapped and all(x is y for x, y in zip(a[1:], operands)), **meta)
        kw = k.get("op_kwargs") or {}
        exp = {"dtype": dtype}
        if masked:
            exp["where"] = where
        ctx.oblige(f"{tag}.every_option_forwarded", isinstance(kw, dict) and set(kw) == set(exp) and all(kw[x] is exp[x] for x in exp), got=sorted(kw) if isinstance(kw, dict) else repr(kw), **meta)
        ctx.oblige(f"{tag}.constant_forwarded", k.get("constant", "missing") is constant, **meta)

    return h


def function_harness(category, kinds, kw_kinds):
    def h(ctx: Ctx):
        cfg = Config()
        cfg.builtins = default_builtins()
        cfg.module_overrides["numpy"] = NP
        interp = Interp(ctx, cfg)
        T = interp.global_lookup(interp.module(TB), "Tensor")
        rec = []
        func = Callee("numpy-function", rec)
        func.result = Opaque("ndarray result")
        mg_func = Callee("mygrad-function", rec)
        mg_func.result = Opaque("tensor result")
        cfg.global_overrides[(TB, "_REGISTERED_DIFFERENTIABLE_NUMPY_FUNCS")] = Registry(lambda k: category == "diff" and k is func, mg_func)
        cfg.global_overrides[(TB, "_REGISTERED_NO_DIFF_NUMPY_FUNCS")] = Registry(lambda k: category == "nodiff" and k is func)
        args = tuple(make_operand(T, k, f"a{i}", None) for i, k in enumerate(kinds))
        kwargs = {f"k{i}": make_operand(T, k, f"kw{i}", None) for i, k in enumerate(kw_kinds)}
        me = next((x for x in list(args) + list(kwargs.values()) if isinstance(x, SObj)), None)
        if me is None:
            return
        f = T.lookup(interp, "__array_function__")[0]
        tag = f"C11.dispatch.function[{category},{'/'.join(kinds)},kw={'/'.join(kw_kinds) or '-'}]"
        meta = dict(function=f"{TB}:Tensor.__array_function__", category=category, operands=list(kinds), kw=list(kw_kinds))
        try:
            r = interp.call(f, [me, func, Opaque("types"), args, dict(kwargs)], {})
        except SymRaise as e:
            ctx.oblige(f"{tag}.no_exception", False, raised=e.exc.cls_name(), **meta)
            return
        if category == "none":
            ctx.oblige(f"{tag}.NotImplemented", r is NotImplemented and not rec, **meta)
            return
        ok = len(rec) == 1
        ctx.oblige(f"{tag}.exactly_one_call", ok, **meta)
        if not ok:
            return
        who, attr, cargs, ckw = rec[0]
        if category == "diff":
            ctx.oblige(f"{tag}.routed_to_mygrad_function", who == "mygrad-function" and r is mg_func.result, **meta)
            ctx.oblige(f"{tag}.arguments_identical", len(cargs) == len(args) and all(a is b for a, b in zip(cargs, args)) and set(ckw) == set(kwargs) and all(ckw[k] is v for k, v in kwargs.items()), **meta)
        else:
            ctx.oblige(f"{tag}.routed_to_numpy_function", who == "numpy-function" and r is func.result, **meta)
            ctx.oblige(f"{tag}.tensors_unwrapped_everything_else_untouched", len(cargs) == len(args) and all(a is unwrapped(b) for a, b in zip(cargs, args)) and set(ckw) == set(kwargs) and all(ckw[k] is unwrapped(v) for k, v in kwargs.items()), **meta)

    return h


def obligations(tier="quick"):
    out = []
    info = {"functions": {}, "unsupported": [], "paths": 0}
    for q in (f"{TB}:Tensor.__array_ufunc__", f"{TB}:Tensor.__array_function__", f"{TB}:_as_constant_array", "mygrad.ufuncs._ufunc_creators:MyGradUnaryUfunc.__call__",
              "mygrad.ufuncs._ufunc_creators:MyGradBinaryUfunc.__call__", "mygrad.ufuncs._ufunc_creators:MyGradBinaryUfuncNoMask.__call__"):
        try:
            _m, node, _c = frontend.find(q)
            info["functions"][q] = frontend.source_hash(node)
        except frontend.ExtractionError as e:
            info["unsupported"].append(str(e))
    hs = []
    max_n = 2 if tier == "quick" else 3
    for category in ("diff", "bool", "const", "none"):
        for method in ("__call__", "reduce", "at"):
            for n in range(1, max_n + 1):
                for kinds in itertools.product(KINDS, repeat=n):
                    for out_kind in OUTS:
                        if method != "__call__" and (n > 1 or out_kind not in ("absent", "tensor-nc")):
                            continue
                        for extra in ((), ("where", "dtype")):
                            if extra and (out_kind not in ("absent", "tensor-nc") or n > 2):
                                continue
                            hs.append((f"ufunc[{category},{method},{kinds},{out_kind},{extra}]", ufunc_harness(category, method, kinds, out_kind, extra)))
    for clsname, nin, masked in (("MyGradUnaryUfunc", 1, True), ("MyGradBinaryUfunc", 2, True), ("MyGradBinaryUfuncNoMask", 2, False)):
        for out_kind in ("none", "tensor", "array"):
            hs.append((f"ufunc_call[{clsname},{out_kind}]", ufunc_call_harness(clsname, nin, masked, out_kind)))
    for category in ("diff", "nodiff", "none"):
        for n in range(0, 3):
            for kinds in itertools.product(KINDS, repeat=n):
                for kwk in ((), ("tensor-nc",), ("pyscalar", "tensor-c")):
                    hs.append((f"function[{category},{kinds},{kwk}]", function_harness(category, kinds, kwk)))
    for name, h in hs:
        results = explore(h)
        k = 0
        for r in results:
            if r.outcome == "unsupported":
                info["unsupported"].append(f"{name}: {r.value}")
                continue
            k += 1
            for o in r.ctx.obligations:
                o.name = f"{o.name}.p{k}"
                out.append(o)
        info["paths"] += k
    return out, info
