"""C10.astype / C17.astype — contract of Tensor.astype(dtype, casting="unsafe", copy=True, *, constant=None).

cast := self.data.astype(dtype=dtype, casting=casting, copy=copy)       (NumPy: `cast is self.data` exactly when no conversion and no copy was needed)
  returns self itself        iff  cast is self.data  and  (constant is None  or  constant is self.constant)
  otherwise                  a NEW tensor built as  type(self)(cast, copy=False, constant=constant):
                               - the caller's `constant` is handed on unchanged (an explicit True / False always wins, C10; None is inferred from the dtype
                                 by the constructor, C10.init), - the converted array is not copied a second time (C17), - nothing else is called
  the arguments reach ndarray.astype unchanged (dtype, casting, copy)
Enumerated: self.constant in {True, False} x constant in {None, True, False} x NumPy returned the same array / a new one x copy in {True, False}.
"""
from __future__ import annotations

from pyvc import frontend
from pyvc.builtins_model import default_builtins
from pyvc.interp import Config, Ctx, Interp, Opaque, SObj, SymRaise, explore

TB = "mygrad.tensor_base"


def harness(self_const, constant, same, copy):
    def h(ctx: Ctx):
        cfg = Config()
        cfg.builtins = default_builtins()
        rec = dict(astype=[], ctor=[])

        class Data(Opaque):
            def __init__(self, what):
                super().__init__(what)

            def astype(self_, *a, **k):
                rec["astype"].append((a, k))
                return self_ if same else Data("converted array")

        data = Data("self.data")
        interp = Interp(ctx, cfg)
        T = interp.global_lookup(interp.module(TB), "Tensor")
        new = Opaque("new tensor")

        def ctor(interp_, args, kwargs):
            rec["ctor"].append((args, kwargs))
            return new

        cfg.summaries[f"{TB}:Tensor"] = ctor
        me = SObj(T, dict(_constant=self_const, data=data), label="self")
        dt, casting = Opaque("dtype"), Opaque("casting")
        f, _ = T.lookup(interp, "astype")
        tag = f"C10.astype[self.constant={self_const},constant={constant},same_array={same},copy={copy}]"
        meta = dict(function=f"{TB}:Tensor.astype")
        try:
            r = interp.call(f, [me, dt], dict(casting=casting, copy=copy, constant=constant))
        except SymRaise as e:
            ctx.oblige(f"{tag}.no_exception", False, raised=e.exc.cls_name(), **meta)
            return
        a_ok = len(rec["astype"]) == 1 and (lambda a, k: (list(a) + [k.get(n) for n in ("dtype", "casting", "copy")][len(a):]) == [dt, casting, copy] or (k.get("dtype") is dt and k.get("casting") is casting and k.get("copy") is copy))(*rec["astype"][0])
        ctx.oblige(f"{tag}.arguments_reach_ndarray_astype_unchanged", a_ok, **meta)
        keep = same and (constant is None or constant is self_const)
        if keep:
            ctx.oblige(f"{tag}.returns_self_when_nothing_changes", r is me and not rec["ctor"], **meta)
        else:
            ok = r is new and len(rec["ctor"]) == 1
            if ok:
                a, k = rec["ctor"][0]
                cast = rec["astype"] and (data if same else None)
                ok = len(a) == 1 and isinstance(a[0], Data) and (a[0] is data) == same and k.get("copy") is False and "constant" in k and k["constant"] is constant and set(k) <= {"copy", "constant"}
            ctx.oblige(f"{tag}.new_tensor_gets_the_requested_flag_and_the_converted_array_uncopied", ok, got=repr(rec["ctor"]), **meta)
        ctx.oblige(f"{tag}.self_untouched", me.fields["_constant"] is self_const and me.fields["data"] is data, **meta)

    return h


def obligations(tier="quick"):
    out = []
    info = {"functions": {}, "unsupported": [], "paths": 0}
    try:
        _m, node, _c = frontend.find(f"{TB}:Tensor.astype")
        info["functions"][f"{TB}:Tensor.astype"] = frontend.source_hash(node)
    except frontend.ExtractionError as e:
        info["unsupported"].append(str(e))
    for sc in (True, False):
        for c in (None, True, False):
            for same in (True, False):
                for copy in (True, False):
                    if same and copy:
                        continue  # NumPy never returns the same array with copy=True
                    name = f"astype[{sc},{c},{same},{copy}]"
                    results = explore(harness(sc, c, same, copy))
                    k = 0
                    for r in results:
                        if r.outcome == "unsupported":
                            info["unsupported"].append(f"{name}: {r.value}")
                            continue
                        k += 1
                        for o in r.ctx.obligations:
                            o.name = f"{o.name}.p{k}"
                            out.append(o)
                    info["paths"] += k
                    if k == 0:
                        info["unsupported"].append(f"{name}: no completed path")
    return out, info
