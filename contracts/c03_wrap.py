"""C03.kernel (= C02.wrap) — contracts of UnaryUfunc.__call__, BinaryUfunc.__call__, Sequential.__call__,
checked for every concrete subclass found by AST scan.

  ensures  the op's own NumPy kernel (class attribute numpy_ufunc / numpy_func, which must be the NumPy
           function the class is registered under) is called exactly once with the operands' `.data` in
           order and with exactly the caller's out / where / dtype (ufuncs) resp. axis, out and exactly the
           keywords among keepdims / initial / where / ddof / dtype that the caller passed (sequential),
           and its result is returned unchanged;
  ensures  self.variables is the tuple of operands in order;  self.where is recorded iff a mask was passed;
           Sequential: self.axis is the axis normalised to a tuple unless the op is integer-axis-only or axis
           is None / already iterable; keepdims / initial / ddof stored as passed; out_shape = result.shape.
"""
from __future__ import annotations

import ast

from pyvc import frontend
from pyvc.builtins_model import default_builtins
from pyvc.interp import ClassValue, Config, Ctx, Interp, Opaque, SymRaise, explore

OB = "mygrad.operation_base"
MODS = ["mygrad.math.arithmetic.ops", "mygrad.math.exp_log.ops", "mygrad.math.trigonometric.ops", "mygrad.math.hyperbolic_trig.ops", "mygrad.math.misc.ops", "mygrad.math.sequential.ops"]

# the NumPy kernel each class must forward to (from NumPy's names, i.e. the "namesake")
EXPECTED = {
    "Add": "add", "Subtract": "subtract", "Multiply": "multiply", "Divide": "divide", "Power": "power", "Reciprocal": "reciprocal", "Square": "square", "Positive": "positive",
    "Negative": "negative", "Exp": "exp", "Exp2": "exp2", "Expm1": "expm1", "Log": "log", "Log2": "log2", "Log10": "log10", "Log1p": "log1p", "Logaddexp": "logaddexp",
    "Logaddexp2": "logaddexp2", "Sin": "sin", "Cos": "cos", "Tan": "tan", "Arcsin": "arcsin", "Arccos": "arccos", "Arctan": "arctan", "Arctan2": "arctan2", "Sinh": "sinh",
    "Cosh": "cosh", "Tanh": "tanh", "Arcsinh": "arcsinh", "Arccosh": "arccosh", "Arctanh": "arctanh", "Abs": "absolute", "Sqrt": "sqrt", "Cbrt": "cbrt", "Maximum": "maximum",
    "Minimum": "minimum", "MatMul": "matmul", "Max": "max", "Min": "min", "Sum": "sum", "Mean": "mean", "Prod": "prod", "CumProd": "cumprod", "CumSum": "cumsum", "Variance": "var", "StdDev": "std",
}


class Recorder:
    def __init__(self, name, log):
        self.name, self.log = name, log

    def __call__(self, *a, **k):
        res = Opaque(f"np.{self.name} result")
        res.shape = Opaque("result.shape")
        self.log.append((self.name, a, k, res))
        return res


class NpRec:
    def __init__(self, log):
        self._log = log
        self._cache = {}

    def _get(self, name):
        if name not in self._cache:
            self._cache[name] = Recorder(name, self._log)
        return self._cache[name]

    def __sym_getattr__(self, interp, name):
        return self._get(name)

    def __getattr__(self, name):
        if name.startswith("_"):
            raise AttributeError(name)
        return self._get(name)


class Operand:
    def __init__(self, nm):
        self.data = Opaque(f"{nm}.data")


def _mask_copy_ok(log, w, where):
    """the op records a PRIVATE COPY of the caller's mask (np.array(where, copy=True) / np.copy(where)): a caller who re-uses its mask
    array before backward() must not change what is differentiated (C01/C02); recording the caller's own array is refuted"""
    for (nm, a, k, res) in log:
        if nm in ("array", "copy") and len(a) >= 1 and a[0] is where and w is res and (nm == "copy" or k.get("copy", True) is True):
            return True
    return False


def _only_kernel_and_mask_copy(log, kernel_name):
    return sum(1 for c in log if c[0] == kernel_name) == 1 and all(c[0] in (kernel_name, "array", "copy") for c in log)


def classes_of(kind_bases):
    """concrete subclasses of the given bases, by AST scan of the ops modules"""
    found = {}
    for mod in MODS:
        m = frontend.load_module(mod)
        for name, node in m.defs.items():
            if isinstance(node, ast.ClassDef):
                found[name] = (mod, [b.id for b in node.bases if isinstance(b, ast.Name)])
    out = []
    roots = set(kind_bases)
    changed = True
    while changed:
        changed = False
        for name, (mod, bases) in found.items():
            if name not in roots and any(b in roots for b in bases):
                roots.add(name)
                changed = True
    for name in sorted(roots - set(kind_bases)):
        if name in found and not name.startswith("_") and name not in ("MaxMin",):
            out.append((found[name][0], name))
    return out


def ufunc_harness(mod, cls, arity, variant):
    def h(ctx: Ctx):
        cfg = Config()
        cfg.builtins = default_builtins()
        log = []
        cfg.module_overrides["numpy"] = NpRec(log)
        interp = Interp(ctx, cfg)
        C = interp.global_lookup(interp.module(mod), cls)
        op = interp.instantiate(C, [], {})
        xs = [Operand(f"x{i}") for i in range(arity)]
        out, where, dtype = Opaque("out"), Opaque("where-mask"), Opaque("dtype")
        kw = {}
        if variant == "all":
            kw = dict(out=out, where=where, dtype=dtype)
        elif variant == "where-true":
            kw = dict(where=True)
        elif variant == "out-positional":
            kw = dict(dtype=dtype)
        args = list(xs) + ([out] if variant == "out-positional" else [])
        meta = dict(function=f"{OB}:{'UnaryUfunc' if arity == 1 else 'BinaryUfunc'}.__call__", op=f"{mod}:{cls}", variant=variant)
        tag = f"C03.kernel.{cls}[{variant}]"
        if cls == "Abs":
            kw = dict(kw)
        try:
            r = interp.call(interp.getattr(op, "__call__"), args, kw)
        except SymRaise as e:
            ctx.oblige(f"{tag}.no_exception", False, raised=e.exc.cls_name(), **meta)
            return
        kern = [c for c in log if c[0] == EXPECTED.get(cls)]
        ctx.oblige(f"{tag}.namesake_kernel_called_once", _only_kernel_and_mask_copy(log, EXPECTED.get(cls)), calls=[c[0] for c in log], **meta)
        if len(kern) != 1:
            return
        _n, a, k, res = kern[0]
        ctx.oblige(f"{tag}.operand_data_in_order", len(a) == arity and all(a[i] is xs[i].data for i in range(arity)), **meta)
        exp_out = out if variant in ("all", "out-positional") else None
        exp_dtype = dtype if variant in ("all", "out-positional") else None
        ok_kw = k.get("out", None) is exp_out and k.get("dtype", None) is exp_dtype
        if variant == "all":
            ok_kw = ok_kw and k.get("where") is where
        else:
            ok_kw = ok_kw and k.get("where", True) is True
        ctx.oblige(f"{tag}.options_forwarded", ok_kw and set(k) <= {"out", "where", "dtype"}, **meta)
        ctx.oblige(f"{tag}.result_returned_unchanged", r is res, **meta)
        v = op.fields.get("variables")
        ctx.oblige(f"{tag}.variables", isinstance(v, tuple) and len(v) == arity and all(v[i] is xs[i] for i in range(arity)), **meta)
        w = interp.getattr(op, "where")
        ctx.oblige(f"{tag}.mask_recorded_iff_passed", _mask_copy_ok(log, w, where) if variant == "all" else (w is True), **meta)

    return h


def sequential_harness(mod, cls, variant):
    def h(ctx: Ctx):
        cfg = Config()
        cfg.builtins = default_builtins()
        log = []
        cfg.module_overrides["numpy"] = NpRec(log)
        interp = Interp(ctx, cfg)
        C = interp.global_lookup(interp.module(mod), cls)
        op = interp.instantiate(C, [], {})
        a = Operand("a")
        out, where = Opaque("out"), Opaque("where-mask")
        int_only, _ = C.lookup(interp, "_integer_axis_only")
        axis = {"none": None, "int": 1, "neg": -1, "tuple": (0, 1), "empty": ()}[variant.split("/")[0]]
        opts = variant.split("/")[1] if "/" in variant else ""
        kw = dict(axis=axis)
        passed = {}
        if "k" in opts:
            passed["keepdims"] = True
        if "d" in opts:
            passed["ddof"] = 1
        if "w" in opts:
            passed["where"] = where
        if "o" in opts:
            kw["out"] = out
        if "t" in opts:
            passed["dtype"] = Opaque("dtype")
        kw.update(passed)
        meta = dict(function=f"{OB}:Sequential.__call__", op=f"{mod}:{cls}", variant=variant)
        tag = f"C03.kernel.{cls}[{variant}]"
        try:
            r = interp.call(interp.getattr(op, "__call__"), [a], kw)
        except SymRaise as e:
            ctx.oblige(f"{tag}.no_exception", False, raised=e.exc.cls_name(), **meta)
            return
        kern = [c for c in log if c[0] == EXPECTED.get(cls)]
        ctx.oblige(f"{tag}.namesake_kernel_called_once", _only_kernel_and_mask_copy(log, EXPECTED.get(cls)), calls=[c[0] for c in log], **meta)
        if len(kern) != 1:
            return
        _n, pa, k, res = kern[0]
        ctx.oblige(f"{tag}.operand_data", len(pa) == 1 and pa[0] is a.data, **meta)
        ctx.oblige(f"{tag}.axis_and_out_forwarded", k.get("axis", "missing") is axis or k.get("axis", "missing") == axis, **meta)
        ctx.oblige(f"{tag}.out_forwarded", k.get("out", "missing") is kw.get("out", None), **meta)
        rest = {x: y for x, y in k.items() if x not in ("axis", "out")}
        # `dtype=None` is always handed on (NumPy's default); every other keyword only if the caller passed it
        exp = dict(passed)
        exp.setdefault("dtype", None)
        ctx.oblige(f"{tag}.exactly_the_passed_keywords", set(rest) == set(exp) and all(rest[x] is exp[x] for x in exp), got=sorted(rest), **meta)
        ctx.oblige(f"{tag}.result_returned_unchanged", r is res, **meta)
        v = op.fields.get("variables")
        ctx.oblige(f"{tag}.variables", isinstance(v, tuple) and len(v) == 1 and v[0] is a, **meta)
        stored_axis = op.fields.get("axis", "missing")
        exp_axis = axis if (int_only is True or axis is None or isinstance(axis, tuple)) else (axis,)
        ctx.oblige(f"{tag}.axis_normalised", stored_axis == exp_axis and type(stored_axis) is type(exp_axis), **meta)
        ctx.oblige(f"{tag}.out_shape_recorded", op.fields.get("out_shape") is res.shape, **meta)
        w = interp.getattr(op, "where")
        ctx.oblige(f"{tag}.mask_recorded_iff_passed", _mask_copy_ok(log, w, where) if "w" in opts else (w is True), **meta)
        if "k" in opts:
            ctx.oblige(f"{tag}.keepdims_stored", op.fields.get("keepdims") is True, **meta)
        if "d" in opts:
            ctx.oblige(f"{tag}.ddof_stored", op.fields.get("ddof") == 1, **meta)

    return h


def obligations(tier="quick"):
    out = []
    info = {"functions": {}, "unsupported": [], "paths": 0}
    for q in (f"{OB}:UnaryUfunc.__call__", f"{OB}:BinaryUfunc.__call__", f"{OB}:Sequential.__call__"):
        try:
            _m, node, _c = frontend.find(q)
            info["functions"][q] = frontend.source_hash(node)
        except frontend.ExtractionError as e:
            info["unsupported"].append(str(e))
    hs = []
    for mod, cls in classes_of(["UnaryUfunc"]):
        for v in ("plain", "all", "where-true", "out-positional"):
            hs.append((f"{cls}[{v}]", ufunc_harness(mod, cls, 1, v)))
    for mod, cls in classes_of(["BinaryUfunc"]):
        for v in ("plain", "all", "where-true", "out-positional"):
            hs.append((f"{cls}[{v}]", ufunc_harness(mod, cls, 2, v)))
    for mod, cls in classes_of(["Sequential"]):
        for v in ("none", "int", "neg", "tuple", "empty", "int/k", "none/kw", "tuple/kd" if cls in ("Variance", "StdDev") else "tuple/k", "int/o", "none/t"):
            hs.append((f"{cls}[{v}]", sequential_harness(mod, cls, v)))
    info["classes"] = len({n.split("[")[0] for n, _ in hs})
    for name, h in hs:
        cls = name.split("[")[0]
        if cls not in EXPECTED:
            info["unsupported"].append(f"{cls}: op class without a registered NumPy namesake in the contract table")
            continue
        results = explore(h)
        k = 0
        for r in results:
            if r.outcome == "unsupported":
                info["unsupported"].append(f"{name}: {r.value}")
                continue
            k += 1
            for o in r.ctx.obligations:
                o.name = f"{o.name}.p{k}"
                out.append(o)
        info["paths"] += k
        if k == 0:
            info["unsupported"].append(f"{name}: no completed path")
    return out, info
