"""C15.ctx — contracts for ContextTracker and the three scope managers.

Data-structure invariant CTX (per instance):  _depth = d >= 0  and  dom(_depth_tracker) = [0, d).

  __enter__ : requires CTX(d)       ensures CTX(d+1), tracker' = tracker[d := state_old],
                                            state' = _enter_set_value, other switch unchanged
  __exit__  : requires CTX(d), d>=1 ensures CTX(d-1), state' = tracker[d-1], tracker' = tracker - {d-1}
                                            (agrees below d-1), returns a falsy value, ignores its arguments
  wrapper   : (decorator form) body runs at depth d+1 with state = _enter_set_value; afterwards
              depth/state as on entry; body's exception propagates, body's result is returned
  lemma     : balanced blocks preserve (depth_i, tracker_i | [0,depth_i)) of every instance, hence
              `with m: B` restores m's switch whatever B does (z3, induction step over the contracts)
"""
from __future__ import annotations

import z3

from pyvc import frontend
from pyvc.builtins_model import default_builtins, wants_interp
from pyvc.heapdom import SymDict
from pyvc.interp import (
    Config,
    Ctx,
    ExcInst,
    FuncValue,
    GlobalCell,
    Interp,
    Opaque,
    SObj,
    SymRaise,
    Unsupported,
    explore,
)

GT = "mygrad._utils.graph_tracking"
LM = "mygrad._utils.lock_management"
UT = "mygrad._utils"

MANAGERS = [
    # (module, class, which global it drives, value set on entry per the property text)
    (GT, "_NoAutoDiff", "TG", False),
    (LM, "_NoMemGuard", "MG", False),
    (LM, "_WithMemGuard", "MG", True),
]


def setup(ctx, mod, cls, d_min=0):
    cfg = Config()
    cfg.builtins = default_builtins()
    TG = GlobalCell("TRACK_GRAPH", z3.Bool("TG0"))
    MG = GlobalCell("MEM_GUARD", z3.Bool("MG0"))
    cfg.global_overrides[(GT, "TRACK_GRAPH")] = TG
    cfg.global_overrides[(LM, "MEM_GUARD")] = MG
    interp = Interp(ctx, cfg)
    C = interp.global_lookup(interp.module(mod), cls)
    obj = SObj(C, label="mgr")
    d = z3.Int("d")
    ctx.assume(d >= d_min)
    tr = SymDict(ctx, "tracker", z3.BoolSort())
    k = z3.Int("k_inv")
    ctx.assume(z3.ForAll([k], z3.Select(tr.dom, k) == z3.And(0 <= k, k < d)))
    obj.fields["_depth"] = d
    obj.fields["_depth_tracker"] = tr
    return interp, obj, d, tr, TG, MG


def _ctx_post(ctx, tag, obj, tr0, d_new, meta):
    tr = obj.fields["_depth_tracker"]
    k = ctx.fresh("k", "int")
    ctx.oblige(f"{tag}.depth", obj.fields["_depth"] == d_new, **meta)
    ctx.oblige(f"{tag}.dom", z3.Select(tr.dom, k) == z3.And(0 <= k, k < d_new), **meta)
    return tr, k


def enter_harness(mod, cls, which, setval):
    def h(ctx: Ctx):
        interp, obj, d, tr, TG, MG = setup(ctx, mod, cls)
        dom0, val0 = tr.snapshot()
        s0 = (TG if which == "TG" else MG).value
        o0 = (MG if which == "TG" else TG).value
        tag = f"C15.ctx.{cls}.__enter__"
        meta = dict(function=f"{mod}:{cls}.__enter__")
        try:
            r = interp.call(interp.getattr(obj, "__enter__"), [], {})
        except SymRaise as e:
            ctx.oblige(f"{tag}.no_raise", False, raised=e.exc.cls_name(), **meta)
            return
        trn, k = _ctx_post(ctx, tag, obj, tr, d + 1, meta)
        ctx.oblige(f"{tag}.saved", z3.Select(trn.val, d) == s0, **meta)
        ctx.oblige(f"{tag}.frame_below", z3.Implies(z3.And(0 <= k, k < d), z3.Select(trn.val, k) == z3.Select(val0, k)), **meta)
        ctx.oblige(f"{tag}.state_set", (TG if which == "TG" else MG).value == z3.BoolVal(setval), **meta)
        ctx.oblige(f"{tag}.other_switch_unchanged", (MG if which == "TG" else TG).value == o0, **meta)
        ctx.oblige(f"{tag}.only_own_fields", set(obj.fields) == {"_depth", "_depth_tracker"}, **meta)

    return h


def exit_harness(mod, cls, which, setval):
    def h(ctx: Ctx):
        interp, obj, d, tr, TG, MG = setup(ctx, mod, cls, d_min=1)
        dom0, val0 = tr.snapshot()
        o0 = (MG if which == "TG" else TG).value
        tag = f"C15.ctx.{cls}.__exit__"
        meta = dict(function=f"{mod}:{cls}.__exit__")
        try:
            r = interp.call(interp.getattr(obj, "__exit__"), [Opaque("exc_type"), Opaque("exc_val"), Opaque("tb")], {})
        except SymRaise as e:
            ctx.oblige(f"{tag}.no_raise", False, raised=e.exc.cls_name(), **meta)
            return
        trn, k = _ctx_post(ctx, tag, obj, tr, d - 1, meta)
        ctx.oblige(f"{tag}.restored", (TG if which == "TG" else MG).value == z3.Select(val0, d - 1), **meta)
        ctx.oblige(f"{tag}.frame_below", z3.Implies(z3.And(0 <= k, k < d - 1), z3.Select(trn.val, k) == z3.Select(val0, k)), **meta)
        ctx.oblige(f"{tag}.other_switch_unchanged", (MG if which == "TG" else TG).value == o0, **meta)
        # a falsy return value: the body's exception is re-raised by the `with` statement
        falsy = (r is None) or (r is False)
        ctx.oblige(f"{tag}.returns_falsy", falsy, **meta)

    return h


def wrapper_harness(mod, cls, which, setval, to_numpy=None):
    """Decorator form: K.__call__(func) returns a wrapper running func inside `with self`."""

    def h(ctx: Ctx):
        interp, obj, d, tr, TG, MG = setup(ctx, mod, cls)
        dom0, val0 = tr.snapshot()
        cell = TG if which == "TG" else MG
        s0 = cell.value
        tag = f"C15.ctx.{cls}.__call__" + ("" if to_numpy is None else f"[to_numpy={to_numpy}]")
        meta = dict(function=f"{mod}:{cls}.__call__")
        seen = {}
        ret = Opaque("body-result")

        @wants_interp
        def body(interp_, *a, **k):
            seen["state"] = cell.value
            seen["depth"] = obj.fields["_depth"]
            seen["args"] = (a, k)
            # the body may flip the switches arbitrarily (turn_memory_guarding_on/off, nested scopes)
            TG.value = ctx.fresh("TG_body", "bool")
            MG.value = ctx.fresh("MG_body", "bool")
            if ctx.choose(2, "body outcome") == 0:
                return ret
            raise SymRaise(ExcInst(ValueError, ("body failed",)))

        # numpy is only touched by `np.asarray(out)` in the to_numpy branch
        class NP:
            @staticmethod
            def asarray(x):
                return ("asarray", x)

        interp.cfg.module_overrides["numpy"] = NP
        kw = {} if to_numpy is None else {"to_numpy": to_numpy}
        wrapper = interp.call(interp.getattr(obj, "__call__"), [body], kw)
        a1, a2 = Opaque("arg1"), Opaque("arg2")
        outcome = None
        try:
            r = interp.call(wrapper, [a1], {"kw": a2})
            outcome = "return"
        except SymRaise as e:
            outcome = "raise"
            ctx.oblige(f"{tag}.exception_propagates", e.exc.cls is ValueError, **meta)
        ctx.oblige(f"{tag}.body_ran", "state" in seen, **meta)
        if "state" not in seen:
            return
        ctx.oblige(f"{tag}.body_state", seen["state"] == z3.BoolVal(setval), **meta)
        ctx.oblige(f"{tag}.body_depth", seen["depth"] == d + 1, **meta)
        ctx.oblige(f"{tag}.args_forwarded", seen["args"][0] == (a1,) and seen["args"][1] == {"kw": a2}, **meta)
        if outcome == "return":
            exp = ret if not to_numpy else ("asarray", ret)
            ctx.oblige(f"{tag}.result_returned", r is exp or r == exp, **meta)
        trn, k = _ctx_post(ctx, tag, obj, tr, d, meta)
        ctx.oblige(f"{tag}.restored", cell.value == s0, outcome=outcome, **meta)
        ctx.oblige(f"{tag}.frame_below", z3.Implies(z3.And(0 <= k, k < d), z3.Select(trn.val, k) == z3.Select(val0, k)), **meta)

    return h


def setter_harness(mod, cls, which):
    def h(ctx: Ctx):
        interp, obj, d, tr, TG, MG = setup(ctx, mod, cls)
        cell = TG if which == "TG" else MG
        other = MG if which == "TG" else TG
        o0 = other.value
        tag = f"C15.ctx.{cls}.state"
        meta = dict(function=f"{mod}:{cls}.state")
        g = interp.getattr(obj, "state")
        ctx.oblige(f"{tag}.getter", g is cell.value or z3.is_expr(g) and g.eq(cell.value), **meta)
        v = z3.Bool("newval")
        interp.setattr(obj, "state", v)
        ctx.oblige(f"{tag}.setter", cell.value == v, **meta)
        ctx.oblige(f"{tag}.setter_other_unchanged", other.value == o0, **meta)
        # non-bool values are rejected
        for bad in (None, 1, "True"):
            try:
                interp.setattr(obj, "state", bad)
                ctx.oblige(f"{tag}.setter_rejects_{type(bad).__name__}", False, **meta)
            except SymRaise as e:
                ctx.oblige(f"{tag}.setter_rejects_{type(bad).__name__}", e.exc.cls is TypeError, **meta)

    return h


def toggles_harness(ctx: Ctx):
    """turn_memory_guarding_on/off, mem_guard_active: set / read the process-wide default."""
    cfg = Config()
    cfg.builtins = default_builtins()
    TG = GlobalCell("TRACK_GRAPH", z3.Bool("TG0"))
    MG = GlobalCell("MEM_GUARD", z3.Bool("MG0"))
    cfg.global_overrides[(GT, "TRACK_GRAPH")] = TG
    cfg.global_overrides[(LM, "MEM_GUARD")] = MG
    interp = Interp(ctx, cfg)
    m = interp.module(LM)
    for fn, val in (("turn_memory_guarding_off", False), ("turn_memory_guarding_on", True)):
        MG.value = z3.Bool("MG0")
        r = interp.call(interp.global_lookup(m, fn), [], {})
        ctx.oblige(f"C15.ctx.{fn}.sets", MG.value is val or (z3.is_expr(MG.value) and z3.is_true(z3.simplify(MG.value == val))), function=f"{LM}:{fn}")
        ctx.oblige(f"C15.ctx.{fn}.track_unchanged", TG.value.eq(z3.Bool("TG0")), function=f"{LM}:{fn}")
    MG.value = z3.Bool("MG0")
    r = interp.call(interp.global_lookup(m, "mem_guard_active"), [], {})
    ctx.oblige("C15.ctx.mem_guard_active.reads", z3.is_expr(r) and r.eq(MG.value), function=f"{LM}:mem_guard_active")


def init_harness(mod, cls):
    def h(ctx: Ctx):
        cfg = Config()
        cfg.builtins = default_builtins()
        interp = Interp(ctx, cfg)
        C = interp.global_lookup(interp.module(mod), cls)
        obj = interp.instantiate(C, [], {})
        tag = f"C15.ctx.{cls}.__init__"
        depth = interp.getattr(obj, "_depth")
        tr = obj.fields.get("_depth_tracker")
        ctx.oblige(f"{tag}.depth0", depth == 0, function=f"{UT}:ContextTracker.__init__")
        ctx.oblige(f"{tag}.tracker_empty", isinstance(tr, dict) and len(tr) == 0, function=f"{UT}:ContextTracker.__init__")
        sv = interp.getattr(obj, "_enter_set_value")
        exp = {"_NoAutoDiff": False, "_NoMemGuard": False, "_WithMemGuard": True}[cls]
        ctx.oblige(f"{tag}.enter_set_value", sv is exp, function=f"{mod}:{cls}")

    return h


def singletons_harness(ctx: Ctx):
    """The public names are instances of the right classes (module-level assignments)."""
    for mod, name, cls in ((GT, "no_autodiff", "_NoAutoDiff"), (LM, "mem_guard_off", "_NoMemGuard"), (LM, "mem_guard_on", "_WithMemGuard")):
        m = frontend.load_module(mod)
        node = m.assigns.get(name)
        import ast

        ok = isinstance(node, ast.Call) and isinstance(node.func, ast.Name) and node.func.id == cls and not node.args and not node.keywords
        ctx.oblige(f"C15.ctx.singleton.{name}", ok, function=f"{mod}:{name}")


def nesting_lemma(ctx: Ctx):
    """Lemma over the contracts (not over code): for `with m: B` where B is balanced.

    State of instance m: depth d, tracker (dom,val); its switch s.  Contracts E (enter), X (exit)
    as proved above.  Induction hypothesis for the balanced body B (P): depth unchanged and the
    tracker unchanged on [0, depth).  Claim: after E; B; X the switch equals its entry value, and P
    holds for the whole block (so the induction goes through for any nesting, re-entrant or not).
    Other instances are only touched by B, for which P is the hypothesis itself."""
    d = z3.Int("d")
    s0 = z3.Bool("s0")
    val0 = z3.Array("val0", z3.IntSort(), z3.BoolSort())
    # after enter (contract E)
    d1 = d + 1
    val1 = z3.Store(val0, d, s0)
    # body B: arbitrary new switch, depth and tracker constrained by P at depth d1
    val2 = z3.Array("val2", z3.IntSort(), z3.BoolSort())
    d2 = z3.Int("d2")
    k = z3.Int("k")
    P_body = z3.And(d2 == d1, z3.ForAll([k], z3.Implies(z3.And(0 <= k, k < d1), z3.Select(val2, k) == z3.Select(val1, k))))
    # exit (contract X) from depth d2
    s3 = z3.Select(val2, d2 - 1)
    d3 = d2 - 1
    val3 = val2
    j = z3.Int("j")
    ctx.assume(d >= 0)
    ctx.assume(P_body)
    ctx.oblige("C15.lemma.switch_restored", s3 == s0, kind="lemma")
    ctx.oblige("C15.lemma.depth_restored", d3 == d, kind="lemma")
    ctx.oblige("C15.lemma.P_preserved", z3.Implies(z3.And(0 <= j, j < d), z3.Select(val3, j) == z3.Select(val0, j)), kind="lemma")
    ctx.oblige("C15.lemma.exit_precondition", d2 >= 1, kind="lemma")


def obligations(tier="quick"):
    out = []
    info = {"functions": {}, "unsupported": [], "paths": 0}
    hs = []
    for mod, cls, which, setval in MANAGERS:
        hs.append((f"{cls}.enter", enter_harness(mod, cls, which, setval)))
        hs.append((f"{cls}.exit", exit_harness(mod, cls, which, setval)))
        if cls == "_NoAutoDiff":
            for tn in (None, False, True):
                hs.append((f"{cls}.call[{tn}]", wrapper_harness(mod, cls, which, setval, tn)))
        else:
            hs.append((f"{cls}.call", wrapper_harness(mod, cls, which, setval)))
        hs.append((f"{cls}.state", setter_harness(mod, cls, which)))
        hs.append((f"{cls}.init", init_harness(mod, cls)))
    hs.append(("toggles", toggles_harness))
    hs.append(("singletons", singletons_harness))
    hs.append(("lemma", nesting_lemma))
    for q in (
        f"{UT}:ContextTracker.__enter__", f"{UT}:ContextTracker.__exit__", f"{UT}:ContextTracker.__call__", f"{UT}:ContextTracker.__init__",
        f"{GT}:_NoAutoDiff.state", f"{GT}:_NoAutoDiff.__call__", f"{LM}:MemStateContext.state", f"{LM}:turn_memory_guarding_on",
        f"{LM}:turn_memory_guarding_off", f"{LM}:mem_guard_active",
    ):
        try:
            _m, node, _c = frontend.find(q)
            info["functions"][q] = frontend.source_hash(node)
            if q.endswith(".state"):
                _m, node, _c = frontend.find_setter(q)
                info["functions"][q + ".setter"] = frontend.source_hash(node)
        except frontend.ExtractionError as e:
            info["unsupported"].append(str(e))
    for name, h in hs:
        results = explore(h)
        n = 0
        for r in results:
            if r.outcome == "unsupported":
                info["unsupported"].append(f"{name}: {r.value}")
                continue
            n += 1
            for o in r.ctx.obligations:
                o.name = f"{o.name}.p{n}"
                out.append(o)
        info["paths"] += n
        if n == 0:
            info["unsupported"].append(f"{name}: no completed path")
    return out, info
