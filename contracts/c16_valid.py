"""C16.valid — ConvND.__call__ / MaxPoolND.__call__ up to the window call.

Spec (property statement): a configuration is *valid* iff every filter / pooling placement lies
completely inside the (padded) data and the placements tile it exactly:
     conv:  forall k.  E_k := x_k + 2 p_k - ((w_k - 1) d_k + 1) >= 0  and  s_k | E_k
     pool:  forall k.  E_k := x_k - w_k >= 0  and  s_k | E_k
  (with s_k >= 1, d_k >= 1, p_k >= 0, integer; spatial sizes x_k, w_k >= 1 are the type invariant).
  ensures  raises <=> not valid        (ValueError / AssertionError)
  ensures  on the accepting paths the callee `sliding_window_view` is called with arguments that
           satisfy *its* acceptance contract (C16.swv Accept) -- the callee-precondition obligation --
           on the padded data, window = w, step = s, dilation = d.
The call to sliding_window_view is replaced by its contract (modular verification).
"""
from __future__ import annotations

import z3

from pyvc import frontend
from pyvc.builtins_model import default_builtins
from pyvc.intdom import IntNp, IVec
from pyvc.interp import Config, Ctx, Interp, PathCut, SymRaise, Unsupported, explore
from lib.report import load_known_findings

from .c16_swv import IArr

CONV = "mygrad.nnet.layers.conv"
POOL = "mygrad.nnet.layers.pooling"
SWV = "mygrad.nnet.layers.utils:sliding_window_view"


class TData:
    def __init__(self, arr):
        self.data = arr
        self.ndim = arr.ndim
        self.shape = arr.shape


def _known_region_active(fid):
    return any(f.get("id") == fid for f in load_known_findings().get("findings", []))


def _vec(x):
    if isinstance(x, IVec):
        return list(x.e)
    if isinstance(x, (tuple, list)):
        return list(x)
    return None


def conv_harness(m, kinds):
    """m spatial dims; kinds = (stride_kind, padding_kind, dilation_kind) each 'int'|'seq'"""

    def h(ctx: Ctx):
        cfg = Config()
        cfg.builtins = default_builtins()
        rec = {}

        def pad(a, pads, mode="constant"):
            pads = [tuple(p) for p in pads]
            shape = [a.shape[i] + pads[i][0] + pads[i][1] for i in range(a.ndim)]
            rec["pad"] = pads
            return IArr(shape, a.nbyte, None, source=a)

        def swv_contract(interp, args, kwargs):
            names = ["arr", "window_shape", "step", "dilation"]
            for n_, v in zip(names, args):
                kwargs[n_] = v
            rec["swv"] = kwargs
            raise PathCut()  # everything after the window call is outside this contract

        cfg.module_overrides["numpy"] = IntNp(extra={"pad": pad})
        cfg.summaries[SWV] = swv_contract
        interp = Interp(ctx, cfg)
        N, C, F = z3.Int("N"), z3.Int("C"), z3.Int("F")
        xs = [z3.Int(f"x{k}") for k in range(m)]
        ws = [z3.Int(f"w{k}") for k in range(m)]
        for v in [N, C, F] + xs + ws:
            ctx.assume(v >= 1)
        nb = z3.Int("nbyte")
        ctx.assume(nb > 0)
        x = TData(IArr([N, C] + xs, nb, None))
        w = TData(IArr([F, C] + ws, nb, None))

        def param(name, kind):
            if kind == "int":
                v = z3.Int(name)
                return v, [v] * m
            vs = [z3.Int(f"{name}{k}") for k in range(m)]
            return tuple(vs), vs

        stride, S = param("s", kinds[0])
        padding, P = param("p", kinds[1])
        dilation, D = param("d", kinds[2])
        E = [xs[k] + 2 * P[k] - ((ws[k] - 1) * D[k] + 1) for k in range(m)]
        type_ok = z3.And(*[s >= 1 for s in S], *[p >= 0 for p in P], *[d >= 1 for d in D])
        valid = z3.And(type_ok, *[z3.And(E[k] >= 0, E[k] % S[k] == 0) for k in range(m)])
        tag = f"C16.valid.conv[m={m},{','.join(kinds)}]"
        meta = dict(function=f"{CONV}:ConvND.__call__", config=dict(m=m, kinds=list(kinds)))
        Op = interp.global_lookup(interp.module(CONV), "ConvND")
        op = interp.instantiate(Op, [], {})
        try:
            interp.call(interp.getattr(op, "__call__"), [x, w], dict(stride=stride, padding=padding, dilation=dilation))
            ctx.oblige(f"{tag}.reaches_window_call", False, **meta)
            return
        except SymRaise as e:
            ctx.oblige(f"{tag}.raises_only_if_invalid", z3.Not(valid), raised=e.exc.cls_name(), **meta)
            return
        except PathCut:
            pass
        ctx.oblige(f"{tag}.accepts_only_if_valid", valid, **meta)
        a = rec["swv"]
        arr = a["arr"]
        W, St, Dl = _vec(a["window_shape"]), _vec(a["step"]), _vec(a.get("dilation"))
        shape_ok = W is not None and St is not None and Dl is not None and len(W) == len(St) == len(Dl) == m and arr.ndim == m + 2
        ctx.oblige(f"{tag}.window_call_arity", shape_ok, **meta)
        if not shape_ok:
            return
        # the data handed to the window helper is x padded by p on both sides of every spatial axis
        for k in range(m):
            ctx.oblige(f"{tag}.padded_extent[{k}]", arr.shape[2 + k] == xs[k] + 2 * P[k], **meta)
            ctx.oblige(f"{tag}.window_args[{k}]", z3.And(W[k] == ws[k], St[k] == S[k], Dl[k] == D[k]), **meta)
        ctx.oblige(f"{tag}.batch_channel_axes_unpadded", z3.And(arr.shape[0] == N, arr.shape[1] == C), **meta)
        X = [arr.shape[2 + k] for k in range(m)]
        pre_wo_dil = z3.And(*[W[k] > 0 for k in range(m)], *[St[k] > 0 for k in range(m)], *[Dl[k] > 0 for k in range(m)], *[W[k] <= X[k] for k in range(m)])
        dil_fit = z3.And(*[W[k] * Dl[k] <= X[k] for k in range(m)])
        ctx.oblige(f"{tag}.callee_precondition", z3.And(pre_wo_dil, dil_fit), kind="callee-pre", **meta)
        if _known_region_active("F8"):
            # known finding F8: region = some axis has w_k*d_k > x_k + 2 p_k although the placement fits.
            # Re-ask outside the region: any *other* way of violating the callee's contract is still reported.
            ctx.oblige(f"{tag}.callee_precondition.outside_F8", z3.Implies(dil_fit, z3.And(pre_wo_dil, dil_fit)), kind="callee-pre", **meta)

    return h


def pool_harness(nd, m, stride_kind):
    def h(ctx: Ctx):
        cfg = Config()
        cfg.builtins = default_builtins()
        rec = {}

        def swv_contract(interp, args, kwargs):
            for n_, v in zip(["arr", "window_shape", "step", "dilation"], args):
                kwargs[n_] = v
            rec["swv"] = kwargs
            raise PathCut()

        np_ = IntNp()
        from pyvc.builtins_model import TypeToken

        np_.extra["ndarray"] = TypeToken("ndarray", lambda interp, v: isinstance(v, IVec))
        cfg.module_overrides["numpy"] = np_
        cfg.summaries[SWV] = swv_contract
        interp = Interp(ctx, cfg)
        shp = [z3.Int(f"x{k}") for k in range(nd)]
        for v in shp:
            ctx.assume(v >= 1)
        nb = z3.Int("nbyte")
        ctx.assume(nb > 0)
        x = TData(IArr(shp, nb, [z3.Int(f"xst{j}") for j in range(len(shp))]))
        pool = tuple(z3.Int(f"w{k}") for k in range(m))
        if stride_kind == "int":
            sv = z3.Int("s")
            stride, S = sv, [sv] * m
        else:
            S = [z3.Int(f"s{k}") for k in range(m)]
            stride = tuple(S)
        lead = nd - m
        tag = f"C16.valid.pool[nd={nd},m={m},{stride_kind}]"
        meta = dict(function=f"{POOL}:MaxPoolND.__call__", config=dict(nd=nd, m=m, stride=stride_kind))
        if m <= nd:
            E = [shp[lead + k] - pool[k] for k in range(m)]
            valid = z3.And(*[p > 0 for p in pool], *[s >= 1 for s in S], *[z3.And(E[k] >= 0, E[k] % S[k] == 0) for k in range(m)])
        else:
            valid = z3.BoolVal(False)
        Op = interp.global_lookup(interp.module(POOL), "MaxPoolND")
        op = interp.instantiate(Op, [], {})
        try:
            interp.call(interp.getattr(op, "__call__"), [x, pool, stride], {})
            ctx.oblige(f"{tag}.reaches_window_call", False, **meta)
            return
        except SymRaise as e:
            ctx.oblige(f"{tag}.raises_only_if_invalid", z3.Not(valid), raised=e.exc.cls_name(), **meta)
            return
        except PathCut:
            pass
        ctx.oblige(f"{tag}.accepts_only_if_valid", valid, **meta)
        a = rec["swv"]
        arr = a["arr"]
        W, St = _vec(a["window_shape"]), _vec(a["step"])
        ok = W is not None and St is not None and len(W) == len(St) == m and a.get("dilation") is None and arr is x.data
        ctx.oblige(f"{tag}.window_call_arity", ok, **meta)
        if not ok:
            return
        for k in range(m):
            ctx.oblige(f"{tag}.window_args[{k}]", z3.And(W[k] == pool[k], St[k] == S[k]), **meta)
        X = [arr.shape[lead + k] for k in range(m)]
        ctx.oblige(f"{tag}.callee_precondition", z3.And(*[W[k] > 0 for k in range(m)], *[St[k] > 0 for k in range(m)], *[W[k] <= X[k] for k in range(m)]), kind="callee-pre", **meta)

    return h


def obligations(tier="quick"):
    out = []
    info = {"functions": {}, "unsupported": [], "paths": 0, "configs": 0}
    for q in (f"{CONV}:ConvND.__call__", f"{POOL}:MaxPoolND.__call__"):
        try:
            _m, node, _c = frontend.find(q)
            info["functions"][q] = frontend.source_hash(node)
        except frontend.ExtractionError as e:
            info["unsupported"].append(str(e))
    hs = []
    mmax = 2 if tier == "quick" else 3
    for m in range(1, mmax + 1):
        for kinds in (("int", "int", "int"), ("seq", "seq", "seq"), ("seq", "int", "int"), ("int", "seq", "seq")):
            hs.append((f"conv{m}{kinds}", conv_harness(m, kinds)))
    for nd in range(1, mmax + 2):
        for m in range(1, min(nd, mmax) + 1):
            for sk in ("int", "seq"):
                hs.append((f"pool{nd},{m},{sk}", pool_harness(nd, m, sk)))
    hs.append(("pool-too-many", pool_harness(1, 2, "int")))
    for name, h in hs:
        info["configs"] += 1
        results = explore(h)
        k = 0
        for r in results:
            if r.outcome == "unsupported":
                info["unsupported"].append(f"{name}: {r.value}")
                continue
            k += 1
            for o in r.ctx.obligations:
                o.name = f"{o.name}.p{k}"
                out.append(o)
        info["paths"] += k
        if k == 0:
            info["unsupported"].append(f"{name}: no completed path")
    return out, info
