"""C04.shape — contract of the `Tensor.shape` setter (tracked mode), the in-place reshape of a tensor that may be a view and may have views.

Setting t.shape = new (new != t.shape, graph tracking on), with PH the placeholder that DuplicatingGraph(t) puts in t's old place:
  ensures  t mirrors  PH.reshape(new)  whose `_base` was first set to PH.base   (t becomes a reshape-view of its own old self)
  ensures  earlier consumers recorded on the reshaped result are rerouted to t
  ensures  PH adopts t as a view child (appended once)
  ensures  if t was a view (PH.base is not None): the view-children list of t's DIRECT parent -- the single input of PH's creator --
           is rebuilt with PH in t's position and every other entry kept, in order; no other tensor's list is rebuilt
           (in particular not the family owner's, unless the owner is that parent)
  ensures  every recorded view of t (the nodes of the duplicating graph other than its root) is replayed on its parent -- on
           `t.reshape(old)` where the parent is t itself -- mirrored into the public tensor, rerouted, and appended to that parent's list
  ensures  nothing else is mirrored / rerouted / appended
Callees replaced by contracts: DuplicatingGraph (node list, placeholders), Tensor.reshape, Tensor._replay_op, mirror_tensor,
reroute_ops_through.  Enumerated: t is an owner / a view of the owner / a view of a view; t has 0, 1 or a chain of 2 views; the position of
t among its parent's children.
"""
from __future__ import annotations

from pyvc import frontend
from pyvc.builtins_model import default_builtins
from pyvc.interp import Config, Ctx, GlobalCell, Interp, Opaque, SObj, SymRaise, explore

TB = "mygrad.tensor_base"
GT = "mygrad._utils.graph_tracking"
DG = "mygrad._utils.duplicating_graph"


class VC:
    """view-children list (WeakRefIterable): append / iteration / clear"""

    def __init__(self, items=(), log=None, owner="?"):
        self.items, self.log, self.owner = list(items), log, owner

    def append(self, x):
        self.items.append(x)
        if self.log is not None:
            self.log.append(("append", self.owner, x))

    def __sym_iter__(self, interp):
        return list(self.items)

    def clear(self):
        self.items.clear()


class ArrS:
    def __init__(self, shape, log):
        self._shape, self.log = shape, log

    def __sym_getattr__(self, interp, name):
        if name == "shape":
            return self._shape
        raise AttributeError(name)

    refuses = False  # when set: NumPy refuses the new shape (the trial assignment raises ValueError)

    def __sym_setattr__(self, interp, name, v):
        self.log.append(("data.shape=", v))
        if self.refuses:
            from pyvc.interp import ExcInst

            raise SymRaise(ExcInst(ValueError, ("cannot reshape array",)))
        self._shape = v if False else self._shape  # the trial assignment is undone by the setter itself; the model keeps the old shape


class Node:
    def __init__(self, tensor, placeholder, parent=None):
        self.tensor, self.placeholder, self.parent = tensor, placeholder, parent


def harness(depth, nviews, pos, prior_grad=False, refused=False):
    """depth: 0 = t owns its memory, 1 = view of the owner, 2 = view of a view; nviews: recorded views below t (chain); pos: index of t among
    its parent's children (siblings before/after)"""

    def h(ctx: Ctx):
        cfg = Config()
        cfg.builtins = default_builtins()
        log = []
        cfg.global_overrides[(GT, "TRACK_GRAPH")] = GlobalCell("TRACK_GRAPH", True)
        interp = Interp(ctx, cfg)
        T = interp.global_lookup(interp.module(TB), "Tensor")

        def mk(name, **extra):
            f = dict(_constant=False, _grad=None, _view_grad=None, _base=None, _creator=None, _ops=set(), data=ArrS((2, 3), log))
            f.update(extra)
            o = SObj(T, f, label=name)
            o.fields["_view_children"] = VC([], log, name)
            return o

        class Creator:
            def __init__(self, *vs):
                self.variables = tuple(vs)

        owner = mk("owner") if depth >= 1 else None
        mid = mk("mid", _base=owner, _creator=Creator(owner)) if depth == 2 else None
        parent = None if depth == 0 else (owner if depth == 1 else mid)
        t = mk("t", _base=owner, _creator=Creator(parent) if parent is not None else None)
        if prior_grad:
            # t still holds the gradient (and a cached view-gradient) of an earlier backward pass: the shape assignment is an in-place update,
            # the old gradient goes first (C07) -- before the placeholder graph is built, which cannot stand in for a tensor with a gradient
            t.fields["_grad"], t.fields["_view_grad"] = Opaque("t.grad of an earlier backward pass"), Opaque("t's cached view gradient")
        ph = mk("placeholder(t)", _base=owner, _creator=t.fields["_creator"])
        sib = [mk(f"sibling{i}", _base=owner) for i in range(2)]
        if parent is not None:
            kids = list(sib)
            kids.insert(pos, t)  # at entry the placeholder graph has already been built: the parent still lists the public tensor t
            parent.fields["_view_children"] = VC(kids, log, parent.label)
            if depth == 2:
                owner.fields["_view_children"] = VC([mid], log, "owner")
        views = [mk(f"view{i}", _base=owner if owner is not None else t) for i in range(nviews)]
        nodes = [Node(t, ph, None)]
        for i, v in enumerate(views):
            nodes.append(Node(v, mk(f"placeholder(view{i})"), t if i == 0 else views[i - 1]))
        snapshot = {o.label: list(o.fields["_view_children"].items) for o in [x for x in (owner, mid, t, ph) if x is not None] + sib + views}
        reshaped, unshaped = mk("placeholder.reshape(new)"), mk("t.reshape(old)")
        replayed = {}

        class Graph:
            def __init__(self_, root):
                log.append(("graph", root, root.fields.get("_grad"), root.fields.get("_view_grad")))
                self_.base = nodes[0]

            def __sym_iter__(self_, interp_):
                return list(nodes)

        class Dup:
            DuplicatingGraph = Graph

            @staticmethod
            def mirror_tensor(*, source, target):
                log.append(("mirror", source, target, source.fields.get("_base") if isinstance(source, SObj) else None))

            @staticmethod
            def reroute_ops_through(*, source, target):
                log.append(("reroute", source, target))

        cfg.global_overrides[(TB, "_dup")] = Dup
        cfg.global_overrides[(TB, "WeakRefIterable")] = lambda items=(): VC(list(items), log, "rebuilt")

        def reshape(interp_, a, k):
            me = a[0]
            log.append(("reshape", me, a[1:] if len(a) > 1 else k))
            return reshaped if me is ph else unshaped

        cfg.summaries[f"{TB}:Tensor.reshape"] = reshape

        def replay(interp_, a, k):
            me, par = a[0], a[1]
            v = mk(f"replayed({me.label})")
            replayed[me.label] = (v, par)
            log.append(("replay", me, par))
            return v

        cfg.summaries[f"{TB}:Tensor._replay_op"] = replay
        setter = T.lookup(interp, "shape")[0].fset
        tag = f"C04.shape[depth={depth},views={nviews},pos={pos}" + (",grad=some]" if prior_grad else "]")
        meta = dict(function=f"{TB}:Tensor.shape.setter", depth=depth, views=nviews, position=pos, prior_grad=prior_grad)
        if refused:
            # C13: a shape that NumPy refuses leaves no trace -- the same exception comes out, the gradient / cached view-gradient / base link the
            # tensor held are what they were, no placeholder graph was built, nothing mirrored or rerouted
            t.fields["data"].refuses = True
            before = dict(t.fields)
            try:
                interp.call(setter, [t, (5, 7)], {})
                ctx.oblige(f"C13.shape[depth={depth},views={nviews},pos={pos},grad={'some' if prior_grad else 'none'}].refused_shape_raises", False, **meta)
                return
            except SymRaise as e:
                ctx.oblige(f"C13.shape[depth={depth},views={nviews},pos={pos},grad={'some' if prior_grad else 'none'}].refused_shape_raises", e.exc.cls is ValueError, **meta)
            same = all(t.fields.get(k_) is v_ for k_, v_ in before.items()) and set(t.fields) == set(before)
            ctx.oblige(f"C13.shape[depth={depth},views={nviews},pos={pos},grad={'some' if prior_grad else 'none'}].refused_shape_leaves_no_trace", same and not [e for e in log if e[0] in ("graph", "mirror", "reroute", "append")], **meta)
            return
        try:
            interp.call(setter, [t, (3, 2)], {})
        except SymRaise as e:
            ctx.oblige(f"{tag}.no_exception", False, raised=e.exc.cls_name(), **meta)
            return
        graphs = [e for e in log if e[0] == "graph"]
        ctx.oblige(f"C07.shape[depth={depth},views={nviews},pos={pos},grad={'some' if prior_grad else 'none'}].gradient_nulled_before_the_placeholder_graph_is_built",
                   len(graphs) == 1 and graphs[0][1] is t and graphs[0][2] is None and graphs[0][3] is None, **meta)
        mirrors = [e for e in log if e[0] == "mirror"]
        reroutes = [e for e in log if e[0] == "reroute"]
        appends = [e for e in log if e[0] == "append"]
        # t mirrors the reshaped placeholder whose base was set to the placeholder's base
        ok = bool(mirrors) and mirrors[0][1] is reshaped and mirrors[0][2] is t and mirrors[0][3] is ph.fields["_base"]
        ctx.oblige(f"{tag}.self_mirrors_reshaped_placeholder_with_its_base", ok, **meta)
        ctx.oblige(f"{tag}.consumers_of_reshaped_rerouted_to_self", bool(reroutes) and reroutes[0][1] is reshaped and reroutes[0][2] is t, **meta)
        ctx.oblige(f"{tag}.placeholder_adopts_self_once", [x for x in ph.fields["_view_children"].items] == snapshot[ph.label] + [t] or
                   (len(ph.fields["_view_children"].items) == len(snapshot[ph.label]) + 1 and ph.fields["_view_children"].items[-1] is t), **meta)
        if parent is not None:
            new = parent.fields["_view_children"].items
            old = snapshot[parent.label]
            exp = [w if w is not t else ph for w in old]
            # replayed views may since have been appended to the parent's list only if the parent is t (never here): compare the rebuilt prefix
            ctx.oblige(f"{tag}.direct_parent_lists_placeholder_in_selfs_position", len(new) == len(exp) and all(a is b for a, b in zip(new, exp)), got=repr(new), **meta)
            for o in [x for x in (owner, mid) if x is not None and x is not parent] + sib:
                cur = o.fields["_view_children"].items
                ctx.oblige(f"{tag}.other_children_lists_untouched[{o.label}]", len(cur) == len(snapshot[o.label]) and all(a is b for a, b in zip(cur, snapshot[o.label])), got=repr(cur), **meta)
        # recorded views are replayed on their parent (or on t.reshape(old) where the parent is t)
        okv = True
        for i, v in enumerate(views):
            par = nodes[i + 1].parent
            want = unshaped if par is t else par
            r = replayed.get(v.label)
            okv = okv and r is not None and r[1] is want
            okv = okv and any(m[1] is r[0] and m[2] is v for m in mirrors) and any(rr[1] is r[0] and rr[2] is v for rr in reroutes)
            okv = okv and any(a[1] == want.label and a[2] is v for a in appends)
        ctx.oblige(f"{tag}.views_replayed_on_parent_or_on_unreshaped_self", okv, **meta)
        ctx.oblige(f"{tag}.nothing_else_mirrored_or_rerouted", len(mirrors) == 1 + len(views) and len(reroutes) == 1 + len(views) and len(replayed) == len(views), **meta)

    return h


def obligations(tier="quick"):
    out = []
    info = {"functions": {}, "unsupported": [], "paths": 0}
    try:
        _m, node, _c = frontend.find_setter(f"{TB}:Tensor.shape")
        info["functions"][f"{TB}:Tensor.shape.setter"] = frontend.source_hash(node)
    except Exception as e:
        info["unsupported"].append(str(e))
    for depth in (0, 1, 2):
        for nviews in (0, 1, 2):
            for pos in ((0,) if depth == 0 else (0, 1, 2)):
                for prior_grad in (False, True):
                    name = f"shape[{depth},{nviews},{pos},{prior_grad}]"
                    results = explore(harness(depth, nviews, pos, prior_grad)) + (explore(harness(depth, nviews, pos, prior_grad, refused=True)) if nviews == 0 else [])
                    k = 0
                    for r in results:
                        if r.outcome == "unsupported":
                            info["unsupported"].append(f"{name}: {r.value}")
                            continue
                        k += 1
                        for o in r.ctx.obligations:
                            o.name = f"{o.name}.p{k}"
                            out.append(o)
                    info["paths"] += k
                    if k == 0:
                        info["unsupported"].append(f"{name}: no completed path")
    return out, info
