"""C01.step — contract of Operation.backward(self, grad)  (also carries C09.raise, C10.nograd,
C12.copy/OWNG, C14.inv/I1, C06.layout for this writer of `_grad`).

Heap model (pyvc/graphdom.py): tensors/arrays are references; `self.variables` is a sequence of
*symbolic length n* of tensor references with arbitrary repetition; every tensor has arbitrary prior
gradient state satisfying the global invariants.  `backward_var` is abstract (its result kind is
forked: SkipGradient / non-numeric / scalar / fresh array / view / `grad` itself / op-private array).

Spec, independent of the code (ghost recursion, unfolded one step at the loop cut):
   contributes(k) := not const(vars[k]) and not SKIP(k)
   C(k)           := R( where . VJP(k), shape(vars[k]) )                   (R = identity on equal shapes)
   Has(0)[t]  = (t._grad0 is not None)            Acc(0)[t]  = val(t._grad0)
   Has(k+1)   = Has(k)[v := true]  if contributes(k) else Has(k)           (v = vars[k])
   Acc(k+1)   = Acc(k)[v := Acc(k)[v] + C(k)  if Has(k)[v] else C(k)]  if contributes(k) else Acc(k)
 ensures  forall t.  (t._grad is not None) = Has(n)[t]  and  val(t._grad) = Acc(n)[t]
 ensures  I1 (shape, dtype), I1' (layout), OWNG (ownership / pairwise distinct / no caller memory),
          constants and non-inputs untouched, `grad`, `where` and every tensor's data unwritten
 raises   InvalidBackprop  only at an input k with  not const /\\ empty consumer set, and never passes one
 raises   InvalidGradient  exactly when the rule returns a non-numeric value

VC style (DESIGN §2.3): goals are skolemised (fresh t*, u*, a*), universally quantified hypotheses
(the invariant at k, the entry invariants) are instantiated over the finite term set
{t*, u*, vars[k]} x array terms reachable from them -- every VC is quantifier-free, so a broken body
yields `sat` with a model instead of `unknown`.  Instantiation only weakens hypotheses (sound).
"""
from __future__ import annotations

import itertools

import z3

from pyvc import frontend
from pyvc.builtins_model import default_builtins
from pyvc.graphdom import COMPACT, BSHAPE, CLAYOUT, NDIM, RFUN, SHAPE0, Heap, NdModel, TensorModel, graph_np
from pyvc.interp import Config, Ctx, ExcInst, Interp, LoopSpec, SObj, SRef, SSeq, SymRaise, Unsupported, explore

OB = "mygrad.operation_base"
TB = "mygrad.tensor_base"
I = z3.IntSort()
Rl = z3.RealSort()
Bo = z3.BoolSort()

SKIP = z3.Function("SKIP", I, Bo)
VJPV = z3.Function("VJPV", I, Rl)
VSHAPE = z3.Function("VSHAPE", I, I)
SpecHas = z3.Function("SpecHas", I, z3.ArraySort(I, Bo))
SpecAcc = z3.Function("SpecAcc", I, z3.ArraySort(I, Rl))

KINDS = ["skip", "invalid", "scalar", "fresh", "view", "is_grad", "op_state"]


def to_int(i):
    return i if z3.is_expr(i) else z3.IntVal(i)


class State:
    """Snapshot accessor for the current heap."""

    def __init__(self, ctx, heap):
        hp = ctx.heap
        self.g = hp[("Tensor", "_grad")]
        self.data = hp[("Tensor", "data")]
        self.const = hp[("Tensor", "_constant")]
        self.opsne = hp[("Tensor", "_ops_nonempty")]
        self.shape, self.dtype, self.base, self.layout, self.val = (hp[("ndarray", f)] for f in ("shape", "dtype", "base", "layout", "val"))
        self.top = heap.cur_top


_OVERRIDES_CACHE = {}


def class_attr_overrides(name):
    """All literal values that the class attribute `name` takes in Operation or any (transitive) subclass, by AST scan
    of the package: `self.<name>` of an abstract operation may be any of them (behavioural subtyping)."""
    if name in _OVERRIDES_CACHE:
        return _OVERRIDES_CACHE[name]
    import ast

    classes = {}
    for modname in frontend.iter_package_modules("mygrad"):
        try:
            m = frontend.load_module(modname)
        except Exception:
            continue
        for cname, node in m.defs.items():
            if isinstance(node, ast.ClassDef):
                classes[cname] = node
    ops = {"Operation"}
    changed = True
    while changed:
        changed = False
        for cname, node in classes.items():
            bases = [b.id if isinstance(b, ast.Name) else getattr(b, "attr", None) for b in node.bases]
            if cname not in ops and any(b in ops for b in bases):
                ops.add(cname)
                changed = True
    vals, unknown = [], False
    for cname in sorted(ops):
        node = classes.get(cname)
        if node is None:
            continue
        for st in node.body:
            tgt = None
            if isinstance(st, ast.Assign) and len(st.targets) == 1 and isinstance(st.targets[0], ast.Name):
                tgt, val = st.targets[0].id, st.value
            elif isinstance(st, ast.AnnAssign) and isinstance(st.target, ast.Name) and st.value is not None:
                tgt, val = st.target.id, st.value
            if tgt == name:
                try:
                    v = ast.literal_eval(val)
                    if v not in vals:
                        vals.append(v)
                except Exception:
                    unknown = True
    _OVERRIDES_CACHE[name] = (vals, unknown)
    return vals, unknown


def harness(where_kind):
    def h(ctx: Ctx):
        cfg = Config()
        cfg.builtins = default_builtins()
        heap = Heap(ctx)
        interp = Interp(ctx, cfg)
        cfg.module_overrides["numpy"] = graph_np(heap)
        cfg.global_overrides[("mygrad._numpy_version", "NP_IS_V2")] = True
        TensorCls = interp.global_lookup(interp.module(TB), "Tensor")
        cfg.ref_models["Tensor"] = TensorModel(heap, TensorCls)
        cfg.ref_models["ndarray"] = NdModel(heap)
        top0 = heap.top
        n = z3.Int("n")
        ctx.assume(n >= 0)
        VARS = z3.Array("vars", I, I)
        ISVAR = z3.Array("ISVAR", I, Bo)  # ghost: any set containing all inputs
        S0 = State(ctx, heap)  # entry state
        ctx.assume(NDIM(SHAPE0) == 0)
        gradarg = SRef("ndarray", z3.Int("gradarg"))
        ctx.assume(z3.And(1 <= gradarg.ref, gradarg.ref <= top0))
        if where_kind == "mask":
            where = SRef("ndarray", z3.Int("where"))
            ctx.assume(z3.And(1 <= where.ref, where.ref <= top0))
            # a mask is boolean: pointwise 0 or 1 (so that "g where the mask holds, else 0" and "g times the mask" are the same number)
            ctx.assume(z3.Or(ctx.heap[("ndarray", "val")][where.ref] == 0, ctx.heap[("ndarray", "val")][where.ref] == 1))
        else:
            where = True
        vt = lambda x: z3.And(1 <= x, x <= top0)  # noqa  (a tensor reference that exists on entry)
        # skolem constants of the goals
        tS, uS, aS = z3.Int("t*"), z3.Int("u*"), z3.Int("a*")
        T_terms = [tS, uS]  # + vars[k] inside an iteration

        # ---- entry facts: the global invariants, as clauses  (name, arity-kinds, fn) ------------------
        ENTRY = [
            ("bounds", "T", lambda t: z3.Implies(vt(t), z3.And(1 <= S0.data[t], S0.data[t] <= top0, 0 <= S0.g[t], S0.g[t] <= top0))),
            ("I1", "T", lambda t: z3.Implies(z3.And(vt(t), S0.g[t] != 0), z3.And(S0.shape[S0.g[t]] == S0.shape[S0.data[t]], S0.dtype[S0.g[t]] == S0.dtype[S0.data[t]], z3.Implies(COMPACT(S0.layout[S0.data[t]]), S0.layout[S0.g[t]] == S0.layout[S0.data[t]])))),
            ("OWNG.owner", "T", lambda t: z3.Implies(z3.And(vt(t), S0.g[t] != 0), S0.base[S0.g[t]] == 0)),
            ("OWNG.distinct", "TT", lambda t, u: z3.Implies(z3.And(vt(t), vt(u), S0.g[t] != 0, t != u), S0.g[t] != S0.g[u])),
            ("OWNG.not_data", "TT", lambda t, u: z3.Implies(z3.And(vt(t), vt(u), S0.g[t] != 0), S0.g[t] != S0.data[u])),
            # requires (caller, C01.sweep): the incoming gradient is not the gradient array of an input
            ("req.grad_not_an_inputs_grad", "T", lambda t: z3.Implies(z3.And(vt(t), ISVAR[t]), S0.g[t] != gradarg.ref)),
            ("C10.const_no_grad", "T", lambda t: z3.Implies(z3.And(vt(t), S0.const[t]), S0.g[t] == 0)),
            ("spec0", "T", lambda t: z3.Implies(vt(t), z3.And(SpecHas(0)[t] == (S0.g[t] != 0), SpecAcc(0)[t] == S0.val[S0.g[t]]))),
        ]
        if where is not True:
            ENTRY.append(("req.where_not_a_grad", "T", lambda t: z3.Implies(vt(t), S0.g[t] != where.ref)))

        def inst(clauses, terms):
            out = []
            for (nm, kinds, fn) in clauses:
                for combo in itertools.product(terms, repeat=len(kinds)):
                    out.append(fn(*combo))
            return out

        for f_ in inst(ENTRY, T_terms):
            ctx.assume(f_)

        # ---- ghost spec definitions ---------------------------------------------------------------
        def vshape_of(k):
            return S0.shape[S0.data[VARS[k]]]

        def Wv(k):
            return VJPV(k) if where is True else VJPV(k) * S0.val[where.ref]

        def Wsh(k):
            if where is True:
                return VSHAPE(k)
            ws = S0.shape[where.ref]
            return z3.If(VSHAPE(k) == ws, ws, BSHAPE(VSHAPE(k), ws))

        def C(k):
            return z3.If(Wsh(k) == vshape_of(k), Wv(k), RFUN(Wv(k), Wsh(k), vshape_of(k)))

        def contributes(k):
            return z3.And(z3.Not(S0.const[VARS[k]]), z3.Not(SKIP(k)))

        def unfold(k):
            v = VARS[k]
            has, acc = SpecHas(k), SpecAcc(k)
            return z3.And(
                SpecHas(k + 1) == z3.If(contributes(k), z3.Store(has, v, True), has),
                SpecAcc(k + 1) == z3.If(contributes(k), z3.Store(acc, v, z3.If(has[v], acc[v] + C(k), C(k))), acc),
            )

        # ---- the op instance ---------------------------------------------------------------------------
        OpCls = interp.global_lookup(interp.module(OB), "Operation")
        op = SObj(OpCls, label="op")
        op.fields["variables"] = SSeq(n, lambda i: SRef("Tensor", z3.Select(VARS, to_int(i))), "tuple", "variables")
        op.fields["where"] = where

        def abstract_class_attr(interp_, name):
            # a data attribute of the class read through `self`: any value a subclass gives it
            from pyvc.interp import _MISSING, FuncValue, PropertyValue, StaticMethod, ClassMethod

            v, _o = OpCls.lookup(interp_, name)
            if v is _MISSING or isinstance(v, (FuncValue, PropertyValue, StaticMethod, ClassMethod)) or name.startswith("__"):
                return _MISSING
            vals, unknown = class_attr_overrides(name)
            if unknown or not vals:
                raise Unsupported(f"class attribute {name} has a non-literal override in some Operation subclass")
            i = ctx.choose(len(vals), f"override of {name}")
            ctx.notes.append(f"self.{name} = {vals[i]!r}")
            return vals[i]

        op.attr_hook = abstract_class_attr
        calls = {"k": None, "kind": None}

        def backward_var_contract(interp_, args, kwargs):
            _self, g, index = args[0], args[1], args[2]
            ctx.oblige("C01.step.backward_var_receives_grad", (g.ref == gradarg.ref) if isinstance(g, SRef) else False, function=f"{OB}:Operation.backward")
            k = to_int(index)
            ctx.oblige("C01.step.backward_var_receives_index", k == ctx.ghost["cur_k"], function=f"{OB}:Operation.backward")
            # C09.raise, converse direction: a cleared non-constant input never reaches the rule silently
            ctx.oblige("C09.raise.no_silent_pass", z3.And(z3.Not(S0.const[VARS[k]]), S0.opsne[VARS[k]]), function=f"{OB}:Operation.backward")
            calls["k"] = k
            kind = KINDS[ctx.choose(len(KINDS), "backward_var result kind")]
            calls["kind"] = kind
            ctx.notes.append(f"backward_var returns {kind}")
            if kind == "skip":
                ctx.assume(SKIP(k))
                SkipGradient = interp.global_lookup(interp.module("mygrad._utils"), "SkipGradient")
                raise SymRaise(ExcInst(SkipGradient, ()))
            ctx.assume(z3.Not(SKIP(k)))
            if kind == "invalid":
                return None
            if kind == "scalar":
                ctx.assume(VSHAPE(k) == SHAPE0)
                return VJPV(k)
            S = State(ctx, heap)
            if kind == "fresh":
                return heap.new_array(shape=VSHAPE(k), dtype=ctx.fresh("dt", "int"), base=0, layout=ctx.fresh("lay", "int"), val=VJPV(k))
            if kind == "view":
                b = ctx.fresh("viewbase", "int")
                ctx.assume(z3.And(1 <= b, b <= heap.cur_top))
                return heap.new_array(shape=VSHAPE(k), dtype=ctx.fresh("dt", "int"), base=b, layout=ctx.fresh("lay", "int"), val=VJPV(k))
            if kind == "is_grad":
                ctx.assume(z3.And(VSHAPE(k) == S.shape[gradarg.ref], VJPV(k) == S.val[gradarg.ref]))
                return gradarg
            if kind == "op_state":
                # C02.alias: private op state, owner of its memory, returned for at most one index, never a
                # tensor's data / a stored gradient / the incoming gradient / the mask
                p = ctx.fresh("opstate", "int")
                ctx.assume(z3.And(1 <= p, p <= top0, p != gradarg.ref, S.base[p] == 0))
                for x in T_terms + [VARS[k]]:
                    ctx.assume(z3.Implies(vt(x), z3.And(S.g[x] != p, S0.data[x] != p)))
                if where is not True:
                    ctx.assume(p != where.ref)
                ctx.assume(z3.And(S.shape[p] == VSHAPE(k), S.val[p] == VJPV(k)))
                return SRef("ndarray", p)
            raise AssertionError(kind)

        cfg.summaries[f"{OB}:Operation.backward_var"] = backward_var_contract

        def reduce_broadcast_contract(interp_, args, kwargs):
            """contract of mygrad._utils.reduce_broadcast, proved in C01.rb"""
            g, vshape = args[0], to_int(args[1])
            S = State(ctx, heap)
            gs = S.shape[g.ref]
            if interp_.truth(gs == vshape):
                return g
            ctx.notes.append("reduce_broadcast reduces")
            if ctx.choose(2, "reduce_broadcast outcome") == 0:
                raise SymRaise(ExcInst(ValueError, ("not broadcastable",)))
            return heap.new_array(shape=vshape, dtype=S.dtype[g.ref], base=0, layout=ctx.fresh("lay", "int"), val=RFUN(S.val[g.ref], gs, vshape))

        cfg.summaries["mygrad._utils:reduce_broadcast"] = reduce_broadcast_contract

        # ---- loop invariant as clauses over the *current* heap ------------------------------------------------
        def INV(k):
            S = State(ctx, heap)
            cl = [
                ("bounds", "T", lambda t: z3.Implies(vt(t), z3.And(0 <= S.g[t], S.g[t] <= S.top))),
                ("C01.has", "T", lambda t: z3.Implies(vt(t), (S.g[t] != 0) == SpecHas(k)[t])),
                ("C01.acc", "T", lambda t: z3.Implies(z3.And(vt(t), S.g[t] != 0), S.val[S.g[t]] == SpecAcc(k)[t])),
                ("C10.constants_untouched", "T", lambda t: z3.Implies(z3.And(vt(t), S0.const[t]), S.g[t] == 0)),
                ("C01.frame.non_inputs_untouched", "T", lambda t: z3.Implies(z3.And(vt(t), z3.Not(ISVAR[t])), z3.And(S.g[t] == S0.g[t], z3.Implies(S.g[t] != 0, S.val[S.g[t]] == S0.val[S0.g[t]])))),
                ("C14.I1.shape", "T", lambda t: z3.Implies(z3.And(vt(t), S.g[t] != 0), S.shape[S.g[t]] == S0.shape[S0.data[t]])),
                ("C14.I1.dtype", "T", lambda t: z3.Implies(z3.And(vt(t), S.g[t] != 0), S.dtype[S.g[t]] == S0.dtype[S0.data[t]])),
                # I1': a tensor whose data fills its memory block (every tensor that owns NumPy-allocated memory)
                # stores its gradient with the same memory layout, so view ops replayed on it yield views
                ("C06.I1prime.layout", "T", lambda t: z3.Implies(z3.And(vt(t), S.g[t] != 0, COMPACT(S0.layout[S0.data[t]])), S.layout[S.g[t]] == S0.layout[S0.data[t]])),
                ("C12.OWNG.owner", "T", lambda t: z3.Implies(z3.And(vt(t), S.g[t] != 0), S.base[S.g[t]] == 0)),
                ("C12.OWNG.distinct", "TT", lambda t, u: z3.Implies(z3.And(vt(t), vt(u), S.g[t] != 0, t != u), S.g[t] != S.g[u])),
                ("C12.OWNG.not_data", "TT", lambda t, u: z3.Implies(z3.And(vt(t), vt(u), S.g[t] != 0), S.g[t] != S0.data[u])),
                ("C12.OWNG.not_incoming_grad", "T", lambda t: z3.Implies(z3.And(vt(t), ISVAR[t]), S.g[t] != gradarg.ref)),
                ("C12.frame.old_array_meta", "A", lambda a: z3.Implies(z3.And(1 <= a, a <= top0), z3.And(S.shape[a] == S0.shape[a], S.dtype[a] == S0.dtype[a], S.base[a] == S0.base[a], S.layout[a] == S0.layout[a]))),
                ("C12.frame.data_unwritten", "T", lambda t: z3.Implies(vt(t), S.val[S0.data[t]] == S0.val[S0.data[t]])),
            ]
            ground = [
                ("top_monotone", S.top >= top0),
                ("C12.frame.grad_arg_unwritten", S.val[gradarg.ref] == S0.val[gradarg.ref]),
                ("frame.other_tensor_fields", z3.And(ctx.heap[("Tensor", "data")] == S0.data, ctx.heap[("Tensor", "_constant")] == S0.const, ctx.heap[("Tensor", "_ops_nonempty")] == S0.opsne)),
            ]
            if where is not True:
                ground.append(("C12.frame.where_unwritten", S.val[where.ref] == S0.val[where.ref]))
                cl.append(("C12.OWNG.not_where", "T", lambda t: z3.Implies(vt(t), S.g[t] != where.ref)))
            return S, cl, ground

        def a_terms(S, tterms):
            out = [aS, gradarg.ref]
            if where is not True:
                out.append(where.ref)
            for x in tterms:
                out += [S.g[x], S0.g[x], S0.data[x]]
            return out

        def inv_goals(interp_, env, k):
            S, cl, ground = INV(k)
            out = list(ground)
            for (nm, kinds, fn) in cl:
                args = {"T": [tS], "TT": [tS, uS], "A": [aS]}[kinds]
                out.append((nm, fn(*args)))
            return out

        def inv_hyps(interp_, env, k):
            if z3.is_expr(k) and not k.eq(n) and not z3.is_int_value(k):
                v = VARS[k]
                ctx.ghost["iter_terms"] = [v]
                ctx.assume(z3.And(1 <= v, v <= top0))
                ctx.assume(ISVAR[v])
                for f_ in inst(ENTRY, T_terms + [v]):
                    ctx.assume(f_)
            else:
                ctx.ghost["iter_terms"] = []
            S, cl, ground = INV(k)
            tterms = T_terms + ctx.ghost["iter_terms"]
            out = list(ground)
            for (nm, kinds, fn) in cl:
                pool = a_terms(S, tterms) if kinds == "A" else tterms
                for combo in itertools.product(pool, repeat=len(kinds)):
                    out.append((nm, fn(*combo)))
            return out

        def havoc(interp_, env):
            ctx.ghost["top"] = ctx.fresh("top_k", "int")

        spec = LoopSpec(
            invariant=inv_goals,
            modifies=("index", "var", "backed_grad"),
            heap_modifies=[("Tensor", "_grad")] + [("ndarray", f) for f in ("shape", "dtype", "base", "layout", "val", "writeable")],
            havoc=havoc,
            at_iteration=lambda interp_, env, k: ctx.assume(unfold(k)),
        )
        spec.assume_invariant = inv_hyps
        spec.expect_iterable = (n, lambda j: VARS[j])  # every input of the op, in order, indices from 0
        cfg.loop_specs[(f"{OB}:Operation.backward", 0)] = spec
        f = interp.global_lookup(interp.module(OB), "Operation")
        bw, _ = f.lookup(interp, "backward")
        tag = f"C01.step[where={where_kind}]"
        meta = dict(function=f"{OB}:Operation.backward", where=where_kind)
        try:
            interp.call(bw, [op, gradarg], {})
        except SymRaise as e:
            nm = e.exc.cls_name()
            if nm == "InvalidBackprop":
                k = ctx.ghost.get("cur_k")
                cond = z3.And(z3.Not(S0.const[VARS[k]]), z3.Not(S0.opsne[VARS[k]])) if k is not None else False
                ctx.oblige(f"C09.raise[where={where_kind}].only_at_cleared_nonconstant_input", cond, raised=nm, **meta)
            elif nm == "InvalidGradient":
                ctx.oblige(f"{tag}.InvalidGradient_only_if_non_numeric", calls.get("kind") == "invalid", raised=nm, **meta)
            elif nm == "ValueError":
                ctx.oblige(f"{tag}.ValueError_only_from_reduce_broadcast", calls.get("kind") in ("scalar", "fresh", "view", "is_grad", "op_state"), raised=nm, **meta)
            else:
                ctx.oblige(f"{tag}.no_other_exception", False, raised=nm, result_kind=calls.get("kind"), **meta)
            return
        # post-state: Inv(n) was assumed by the loop rule (instantiated at the skolems); the function's
        # postcondition is exactly Inv(n) at the skolems
        for nm_, fml in inv_goals(interp, None, n):
            ctx.oblige(f"{tag}.post.{nm_}", fml, **meta)

    return h


def obligations(tier="quick"):
    out = []
    info = {"functions": {}, "unsupported": [], "paths": 0}
    for q in (f"{OB}:Operation.backward", f"{OB}:Operation.grad_post_process_fn", f"{TB}:Tensor.constant", f"{TB}:Tensor.shape", f"{TB}:Tensor.dtype"):
        try:
            _m, node, _c = frontend.find(q)
            info["functions"][q] = frontend.source_hash(node)
        except frontend.ExtractionError as e:
            info["unsupported"].append(str(e))
    for wk in ("true", "mask"):
        results = explore(harness(wk))
        k = 0
        for r in results:
            if r.outcome == "unsupported":
                info["unsupported"].append(f"step[{wk}]: {r.value}")
                continue
            k += 1
            for o in r.ctx.obligations:
                o.name = f"{o.name}.p{k}" if "[where=" in o.name else f"{o.name}[where={wk}].p{k}"
                out.append(o)
        info["paths"] += k
        if k == 0:
            info["unsupported"].append(f"step[{wk}]: no completed path")
    return out, info
