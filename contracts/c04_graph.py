"""C04.mirror / C04.reroute — contracts of the graph-surgery primitives in _utils/duplicating_graph.py.

reroute_ops_through(target, source):
   for every *live* operation o referenced from source._ops (any number, symbolic):
        o.variables' = o.variables with every occurrence of `source` replaced by `target`, position-wise,
        same length;
   every other operation's variables, and every field of every tensor, are unchanged.
mirror_tensor(target, source):
   every instance field of `target` becomes that of `source` (shallow: the same objects), fields of all
   other tensors unchanged; the two python objects keep their identities (references are not rebound).
   The field list is collected mechanically from the `self.X = ...` statements of Tensor.__init__.
"""
from __future__ import annotations

import ast
import itertools

import z3

from pyvc import frontend
from pyvc.builtins_model import default_builtins
from pyvc.graphdom import Heap, NdModel, TensorModel
from pyvc.interp import Config, Ctx, Interp, LoopSpec, Opaque, SRef, SSeq, SymRaise, Unsupported, explore, to_z3

DG = "mygrad._utils.duplicating_graph"
TB = "mygrad.tensor_base"
I = z3.IntSort()
Bo = z3.BoolSort()
AI = z3.ArraySort(I, I)


def tensor_init_fields():
    _m, node, _c = frontend.find(f"{TB}:Tensor.__init__")
    out = []
    for n in ast.walk(node):
        tg = []
        if isinstance(n, ast.Assign):
            tg = n.targets
        elif isinstance(n, ast.AnnAssign):
            tg = [n.target]
        for t in tg:
            if isinstance(t, ast.Attribute) and isinstance(t.value, ast.Name) and t.value.id == "self" and t.attr not in out:
                out.append(t.attr)
    return out


class OpModel:
    def __init__(self, ctx):
        self.ctx = ctx

    def getattr(self, interp, o, name):
        if name == "variables":
            arr = z3.Select(self.ctx.heap[("Operation", "variables")], o.ref)
            ln = z3.Select(self.ctx.heap[("Operation", "nvars")], o.ref)
            return SSeq(ln, lambda j: SRef("Tensor", z3.Select(arr, to_z3(j))), "tuple", "op.variables")
        raise Unsupported(f"Operation attribute .{name}")

    def setattr(self, interp, o, name, v):
        if name != "variables":
            raise Unsupported(f"Operation attribute assignment .{name}")
        if not isinstance(v, SSeq):
            raise Unsupported("op.variables = <concrete tuple>")
        j = z3.Int("j!lam")
        arr = z3.Lambda([j], v.get(j).ref)
        h = self.ctx.heap
        h[("Operation", "variables")] = z3.Store(h[("Operation", "variables")], o.ref, arr)
        h[("Operation", "nvars")] = z3.Store(h[("Operation", "nvars")], o.ref, to_z3(v.length))
        self.ctx.ghost.setdefault("op_writes", []).append(o.ref)


class WeakRefVal:
    def __init__(self, ref, alive):
        self.ref, self.alive = ref, alive

    def __call__(self):
        return SRef("Operation", z3.If(self.alive, self.ref, 0))


def reroute_harness(ctx: Ctx):
    cfg = Config()
    cfg.builtins = default_builtins()
    heap = Heap(ctx)
    ctx.field("Operation", "variables", AI)
    ctx.field("Operation", "nvars", I)
    interp = Interp(ctx, cfg)
    TensorCls = interp.global_lookup(interp.module(TB), "Tensor")
    m = z3.Int("m")
    ctx.assume(m >= 0)
    OPS = z3.Array("ops_of_source", I, I)
    ALIVE = z3.Array("alive", I, Bo)
    src, tgt = SRef("Tensor", z3.Int("source")), SRef("Tensor", z3.Int("target"))
    ctx.assume(z3.And(src.ref >= 1, tgt.ref >= 1))

    class TM(TensorModel):
        def getattr(self, interp_, o, name):
            if name == "_ops":
                # the consumer set that is iterated is the source's; the consumer set of any other tensor is an arbitrary set (reading it is pure,
                # what the function may DO is fixed by the `vars` / `len` / `tensors_untouched` clauses)
                if interp_.truth(o.ref == src.ref):
                    return SSeq(m, lambda i: WeakRefVal(z3.Select(OPS, to_z3(i)), z3.Select(ALIVE, to_z3(i))), "set", "source._ops")
                n_o = ctx.fresh("n_ops_other", "int")
                ctx.assume(n_o >= 0)
                return SSeq(n_o, lambda i: Opaque("a consumer of another tensor"), "set", "other._ops")
            return super().getattr(interp_, o, name)

    cfg.ref_models["Tensor"] = TM(heap, TensorCls)
    cfg.ref_models["Operation"] = OpModel(ctx)
    V0 = ctx.heap[("Operation", "variables")]
    N0 = ctx.heap[("Operation", "nvars")]
    T0 = {k: v for k, v in ctx.heap.items() if k[0] == "Tensor"}
    oS, jS, iS = z3.Int("o*"), z3.Int("j*"), z3.Int("i*")
    DONE = z3.Function("DONE", I, z3.ArraySort(I, Bo))
    ctx.assume(z3.Not(DONE(0)[oS]))
    # live op references are non-null
    def subst(x):
        return z3.If(x == src.ref, tgt.ref, x)

    def clauses(k):
        V, N = ctx.heap[("Operation", "variables")], ctx.heap[("Operation", "nvars")]
        return [
            ("vars", lambda o, j: V[o][j] == z3.If(DONE(k)[o], subst(V0[o][j]), V0[o][j])),
            ("len", lambda o, j: N[o] == N0[o]),
        ]

    def goals(interp_, env, k):
        out = [(nm, fn(oS, jS)) for nm, fn in clauses(k)]
        out.append(("tensors_untouched", z3.And(*[ctx.heap[key] == T0[key] for key in T0])))
        return out

    def hyps(interp_, env, k):
        terms = [oS]
        if z3.is_expr(k) and not k.eq(m) and not z3.is_int_value(k):
            cur = z3.If(ALIVE[k], OPS[k], 0)
            terms.append(cur)
            ctx.assume(z3.Implies(ALIVE[k], OPS[k] >= 1))
        out = []
        for nm, fn in clauses(k):
            for o in terms:
                out.append((nm, fn(o, jS)))
        out.append(("tensors_untouched", z3.And(*[ctx.heap[key] == T0[key] for key in T0])))
        return out

    def unfold(interp_, env, k):
        ctx.assume(DONE(k + 1) == z3.If(ALIVE[k], z3.Store(DONE(k), OPS[k], True), DONE(k)))

    spec = LoopSpec(invariant=goals, modifies=("op",), heap_modifies=[("Operation", "variables"), ("Operation", "nvars")], at_iteration=unfold)
    spec.assume_invariant = hyps
    # every weak reference held by source._ops is visited
    spec.expect_iterable = (m, None, lambda got, j: z3.And(to_z3(got.ref) == OPS[j], to_z3(got.alive) == ALIVE[j]) if isinstance(got, WeakRefVal) else z3.BoolVal(False))
    cfg.loop_specs[(f"{DG}:reroute_ops_through", 0)] = spec
    f = interp.global_lookup(interp.module(DG), "reroute_ops_through")
    meta = dict(function=f"{DG}:reroute_ops_through")
    try:
        interp.call(f, [], {"target": tgt, "source": src})
    except SymRaise as e:
        ctx.oblige("C04.reroute.no_exception", False, raised=e.exc.cls_name(), **meta)
        return
    for nm, fml in goals(interp, None, m):
        ctx.oblige(f"C04.reroute.post.{nm}", fml, **meta)


def mirror_harness(ctx: Ctx):
    cfg = Config()
    cfg.builtins = default_builtins()
    fields = tensor_init_fields()
    heap = Heap(ctx, tensor_fields={f: I for f in fields if f not in ("_constant",)})
    interp = Interp(ctx, cfg)
    TensorCls = interp.global_lookup(interp.module(TB), "Tensor")
    src, tgt = SRef("Tensor", z3.Int("source")), SRef("Tensor", z3.Int("target"))
    ctx.assume(z3.And(src.ref >= 1, tgt.ref >= 1))
    all_fields = [k[1] for k in ctx.heap if k[0] == "Tensor" and k[1] in fields]
    missing = [f for f in fields if ("Tensor", f) not in ctx.heap]

    class DictView:
        def __init__(self, ref):
            self.ref = ref

        def copy(self):
            return {f: z3.Select(ctx.heap[("Tensor", f)], self.ref) for f in all_fields}

    class TM(TensorModel):
        def getattr(self, interp_, o, name):
            if name == "__dict__":
                return DictView(o.ref)
            return super().getattr(interp_, o, name)

        def setattr(self, interp_, o, name, v):
            if name == "__dict__":
                if isinstance(v, DictView):
                    # the attribute dictionary of another tensor itself: the two tensors would share every later attribute write
                    ctx.oblige("C04.mirror.dict_is_a_fresh_copy", False, function=f"{DG}:mirror_tensor", note="target.__dict__ is source.__dict__ (aliased), not a copy")
                    v = v.copy()
                if not isinstance(v, dict) or set(v) != set(all_fields):
                    raise Unsupported("__dict__ assigned a value that is not a full field snapshot")
                for f, val in v.items():
                    heap.set("Tensor", f, o.ref, val)
                return
            return super().setattr(interp_, o, name, v)

    cfg.ref_models["Tensor"] = TM(heap, TensorCls)
    H0 = {k: v for k, v in ctx.heap.items()}
    f = interp.global_lookup(interp.module(DG), "mirror_tensor")
    meta = dict(function=f"{DG}:mirror_tensor", fields=fields)
    ctx.oblige("C04.mirror.field_list_complete", not missing, missing=missing, **meta)
    try:
        interp.call(f, [], {"target": tgt, "source": src})
    except SymRaise as e:
        ctx.oblige("C04.mirror.no_exception", False, raised=e.exc.cls_name(), **meta)
        return
    tS = z3.Int("t*")
    for fld in all_fields:
        cur, old = ctx.heap[("Tensor", fld)], H0[("Tensor", fld)]
        ctx.oblige(f"C04.mirror.target_gets_source.{fld}", cur[tgt.ref] == old[src.ref], **meta)
        ctx.oblige(f"C04.mirror.others_unchanged.{fld}", z3.Implies(tS != tgt.ref, cur[tS] == old[tS]), **meta)
    for key in H0:
        if key[0] != "Tensor":
            ctx.oblige(f"C04.mirror.frame.{key[0]}.{key[1]}", ctx.heap[key] == H0[key], **meta)


def copy_harness(grad_kind, const_kind):
    """Tensor.copy(constant=None): the mutated base of every in-place update is built with it (C04) and it must be
    detached (C17).  ensures: result is a new tensor whose data is a fresh array with self.data's shape, dtype, value and --
    for compact data -- *memory layout* (so that view ops replayed on it stay views); gradient copied into a fresh array
    (None stays None); flag = self.constant unless given; nothing of self is written."""

    def h(ctx: Ctx):
        from pyvc.graphdom import COMPACT, KLAYOUT, CLAYOUT, graph_np

        cfg = Config()
        cfg.builtins = default_builtins()
        heap = Heap(ctx)
        interp = Interp(ctx, cfg)
        TensorCls = interp.global_lookup(interp.module(TB), "Tensor")
        cfg.ref_models["Tensor"] = TensorModel(heap, TensorCls)
        cfg.ref_models["ndarray"] = NdModel(heap)
        cfg.module_overrides["numpy"] = graph_np(heap)
        top0 = heap.top
        me = SRef("Tensor", z3.Int("self"))
        ctx.assume(z3.And(1 <= me.ref, me.ref <= top0))
        H0 = dict(ctx.heap)
        d0 = H0[("Tensor", "data")][me.ref]
        g0 = H0[("Tensor", "_grad")][me.ref]
        ctx.assume(z3.And(1 <= d0, d0 <= top0, 0 <= g0, g0 <= top0))
        if grad_kind == "none":
            ctx.assume(g0 == 0)
        else:
            ctx.assume(g0 != 0)
        made = []

        def ctor(interp_, args, kwargs):
            # contract of Tensor(x, constant=c) with default copy=True (C17/C10.init): a new tensor wrapping a copy made by np.array(x, copy=True)
            x = args[0]
            nt = heap.alloc("Tensor")
            # np.array(x, copy=True) keeps order 'K'
            arr = NdModel(heap).copy(interp_, x, "K")
            heap.set("Tensor", "data", nt.ref, arr.ref)
            heap.set("Tensor", "_grad", nt.ref, z3.IntVal(0))
            heap.set("Tensor", "_creator", nt.ref, z3.IntVal(0))
            heap.set("Tensor", "_base", nt.ref, z3.IntVal(0))
            c = kwargs.get("constant")
            heap.set("Tensor", "_constant", nt.ref, to_z3(c))
            made.append((nt, x, kwargs))
            return nt

        cfg.summaries[f"{TB}:Tensor"] = ctor
        f, _ = TensorCls.lookup(interp, "copy")
        const = {"none": None, "given": z3.Bool("constant_arg")}[const_kind]
        meta = dict(function=f"{TB}:Tensor.copy", grad=grad_kind, constant=const_kind)
        tag = f"C04.copy[grad={grad_kind},constant={const_kind}]"
        r = interp.call(f, [me], {"constant": const} if const is not None else {})
        cur = ctx.heap
        shp, dt, ly, vl, bs = (cur[("ndarray", f_)] for f_ in ("shape", "dtype", "layout", "val", "base"))
        shp0, dt0, ly0, vl0 = (H0[("ndarray", f_)] for f_ in ("shape", "dtype", "layout", "val"))
        ctx.oblige(f"{tag}.new_tensor", z3.And(r.ref > top0) if isinstance(r, SRef) else False, **meta)
        if not isinstance(r, SRef):
            return
        rd = cur[("Tensor", "data")][r.ref]
        ctx.oblige(f"{tag}.data_fresh_owner", z3.And(rd > top0, bs[rd] == 0), **meta)
        ctx.oblige(f"{tag}.data_same_shape_dtype_value", z3.And(shp[rd] == shp0[d0], dt[rd] == dt0[d0], vl[rd] == vl0[d0]), **meta)
        ctx.oblige(f"{tag}.data_same_layout", z3.Implies(COMPACT(ly0[d0]), ly[rd] == ly0[d0]), **meta)
        rg = cur[("Tensor", "_grad")][r.ref]
        if grad_kind == "none":
            ctx.oblige(f"{tag}.no_grad", rg == 0, **meta)
        else:
            ctx.oblige(f"{tag}.grad_fresh_copy", z3.And(rg > top0, rg != rd, bs[rg] == 0, vl[rg] == vl0[g0], shp[rg] == shp0[g0], dt[rg] == dt0[g0]), **meta)
        exp_flag = H0[("Tensor", "_constant")][me.ref] if const is None else const
        ctx.oblige(f"{tag}.flag", cur[("Tensor", "_constant")][r.ref] == exp_flag, **meta)
        ctx.oblige(f"{tag}.detached", z3.And(cur[("Tensor", "_creator")][r.ref] == 0, cur[("Tensor", "_base")][r.ref] == 0), **meta)
        tS = z3.Int("t*")
        for key, old in H0.items():
            if key[0] == "Tensor":
                ctx.oblige(f"{tag}.frame.{key[1]}", z3.Implies(z3.And(1 <= tS, tS <= top0), cur[key][tS] == old[tS]), **meta)
        aS = z3.Int("a*")
        for fld in ("shape", "dtype", "layout", "val", "base"):
            ctx.oblige(f"{tag}.frame.arrays.{fld}", z3.Implies(z3.And(1 <= aS, aS <= top0), cur[("ndarray", fld)][aS] == H0[("ndarray", fld)][aS]), **meta)

    return h


def replay_op_harness(has_creator):
    """Tensor._replay_op(*input_vars): re-creates a view after an in-place update.
    ensures  raises DisconnectedView iff self has no creator;
    ensures  otherwise returns exactly  self._op(type(creator), *input_vars, op_args=creator.replay_args,
             op_kwargs=creator.replay_kwargs, constant=creator.replay_force_constant)  -- in particular the flag that was forced
             on the original view is forced on, *and recorded for*, every later replay (C10: an in-place target keeps its flag)."""

    def h(ctx: Ctx):
        from pyvc.interp import Opaque, SObj

        cfg = Config()
        cfg.builtins = default_builtins()
        interp = Interp(ctx, cfg)
        T = interp.global_lookup(interp.module(TB), "Tensor")
        rec = []
        ret = Opaque("replayed view")
        ret_fields = {}

        class Ret:
            def __sym_setattr__(self, interp_, name, v):
                ret_fields[name] = v

        retobj = Ret()
        cfg.summaries[f"{TB}:Tensor._op"] = lambda i_, a, k: (rec.append((a, k)), retobj)[1]

        class Creator:
            replay_args = Opaque("replay_args")
            replay_kwargs = Opaque("replay_kwargs")
            replay_force_constant = Opaque("replay_force_constant")

            def __sym_type__(self, interp_):
                return CreatorCls

        CreatorCls = Opaque("type(creator)")
        cr = Creator() if has_creator else None
        me = SObj(T, dict(_creator=cr), label="self")
        f, _ = T.lookup(interp, "_replay_op")
        x1, x2 = Opaque("input 1"), Opaque("input 2")
        meta = dict(function=f"{TB}:Tensor._replay_op", has_creator=has_creator)
        try:
            r = interp.call(f, [me, x1, x2], {})
        except SymRaise as e:
            ctx.oblige("C04.replay.DisconnectedView_iff_no_creator", (not has_creator) and e.exc.cls_name() == "DisconnectedView", raised=e.exc.cls_name(), **meta)
            return
        ctx.oblige("C04.replay.returns_only_with_creator", has_creator, **meta)
        ok = len(rec) == 1
        ctx.oblige("C04.replay.single_op_call", ok, **meta)
        if not ok:
            return
        a, k = rec[0]
        ctx.oblige("C04.replay.same_operation_class_and_inputs", len(a) == 4 and a[1] is CreatorCls and a[2] is x1 and a[3] is x2, **meta)
        ctx.oblige("C04.replay.recorded_arguments_reused", k.get("op_args") is Creator.replay_args and k.get("op_kwargs") is Creator.replay_kwargs, **meta)
        ctx.oblige("C10.replay.forced_flag_passed_to_op", k.get("constant", "missing") is Creator.replay_force_constant and set(k) == {"op_args", "op_kwargs", "constant"}, **meta)
        ctx.oblige("C04.replay.result_returned_untouched", r is retobj and not ret_fields, **meta)

    return h


def obligations(tier="quick"):
    out = []
    info = {"functions": {}, "unsupported": [], "paths": 0}
    for q in (f"{DG}:reroute_ops_through", f"{DG}:mirror_tensor", f"{TB}:Tensor.__init__", f"{TB}:Tensor.copy", f"{TB}:Tensor._replay_op"):
        try:
            _m, node, _c = frontend.find(q)
            info["functions"][q] = frontend.source_hash(node)
        except frontend.ExtractionError as e:
            info["unsupported"].append(str(e))
    hs = [("reroute", reroute_harness), ("mirror", mirror_harness)] + [(f"copy[{g},{c}]", copy_harness(g, c)) for g in ("none", "some") for c in ("none", "given")] + [(f"replay[{c}]", replay_op_harness(c)) for c in (True, False)]
    for name, h in hs:
        results = explore(h)
        k = 0
        for r in results:
            if r.outcome == "unsupported":
                info["unsupported"].append(f"{name}: {r.value}")
                continue
            k += 1
            for o in r.ctx.obligations:
                o.name = f"{o.name}.p{k}"
                out.append(o)
        info["paths"] += k
        if k == 0:
            info["unsupported"].append(f"{name}: no completed path")
    return out, info
