"""C06.getter — contract of the property getter Tensor.grad (the only reader of a view's gradient).

root(a) := a if a.base is None else a.base     (NumPy: the array that owns a's memory)
A view produced from array g by a view-op shares g's memory: root(view) = root(g)          [axiom about view-ops, see `replay`]

Tensor.grad (getter), for a tensor t with B := t._base:
  t is a constant view                                            -> returns t._grad (never written by back-propagation), writes nothing (C10)
  B is None, or B is a constant tensor                            -> returns t._grad, writes nothing  (C01: a non-constant view of a
                                                                    constant base still reports the gradient it received)
  B is a non-constant tensor (t is a view of it):
    POST  the result r is None, or root(r) is B._grad              (a view's gradient is a window onto ITS BASE'S CURRENT gradient:
                                                                    an array belonging to an earlier gradient of B is never returned)
    POST  r is None only if B._grad is None, or t._creator is None (graph cleared), or the parent's gradient is None
    POST  when recomputed: r = (view-op of t replayed on the parent's gradient).data, computed with graph tracking off (no graph is
          recorded for it), stored in t._view_grad, and t's other fields and every other tensor's non-cache fields are untouched
    POST  the cached value is reused only when it already satisfies the first POST (so a second read returns the same array object)
  The parent's gradient is obtained through the same getter: recursive call replaced by this contract (induction along the chain
  of view-creators, which is finite because creators are older than their results).

Preconditions (type invariants established by Tensor._op, contracts/c_op.py C04.base): a view's creator has exactly one input p, and
p._base is None => p is B, else p._base is B.  B._grad has B's shape and layout (I1, I1') but need not own its memory (a caller's seed kept
as it is, known finding F6, may be a window of a larger buffer): the contract speaks about memory regions (see the harness).
"""
from __future__ import annotations

import z3

from pyvc import frontend
from pyvc.builtins_model import default_builtins
from pyvc.graphdom import Heap, NdModel, TensorModel
from pyvc.interp import Config, Ctx, GlobalCell, Interp, SRef, SymRaise, Unsupported, explore

TB = "mygrad.tensor_base"
GT = "mygrad._utils.graph_tracking"
I = z3.IntSort()
REGION = z3.Function("REGION", I, I)
SUB = z3.Function("SUB", I, I, I)  # (tensor whose creator is the view-op, region of the source) -> region of the result
SUBC = z3.Function("SUBC", I, I, I)
GRADLIKE = z3.Function("GRADLIKE", I, z3.BoolSort())
ORIGIN = z3.Function("ORIGIN", I, I)


def harness(ctx: Ctx):
    cfg = Config()
    cfg.builtins = default_builtins()
    heap = Heap(ctx)
    ctx.field("Operation", "parent", I)  # the single input of a view-creating op
    log = []
    track = {"depth": 0}

    class NoAutodiff:
        def __enter__(self):
            track["depth"] += 1
            log.append(("enter",))

        def __exit__(self, *a):
            track["depth"] -= 1
            log.append(("exit",))
            return False

    cfg.global_overrides[(GT, "no_autodiff")] = NoAutodiff()
    cfg.global_overrides[(GT, "TRACK_GRAPH")] = GlobalCell("TRACK_GRAPH", True)
    interp = Interp(ctx, cfg)
    TensorCls = interp.global_lookup(interp.module(TB), "Tensor")
    H = lambda c, f: ctx.heap[(c, f)]  # noqa: E731

    def root(a):
        b = z3.Select(H("ndarray", "base"), a)
        return z3.If(b == 0, a, b)

    class OM:
        def getattr(self, interp_, o, name):
            if name == "variables":
                return (SRef("Tensor", z3.Select(H("Operation", "parent"), o.ref)),)
            raise Unsupported(f"Operation.{name}")

    cfg.ref_models["Tensor"] = TensorModel(heap, TensorCls)
    cfg.ref_models["Operation"] = OM()
    cfg.ref_models["ndarray"] = NdModel(heap)

    me = SRef("Tensor", z3.Int("t"))
    top0 = heap.top
    ctx.assume(z3.And(1 <= me.ref, me.ref <= top0))
    H0 = dict(ctx.heap)
    base0 = H0[("Tensor", "_base")][me.ref]
    bgrad0 = H0[("Tensor", "_grad")][base0]
    creator0 = H0[("Tensor", "_creator")][me.ref]
    parent0 = H0[("Operation", "parent")][creator0]
    vg0 = H0[("Tensor", "_view_grad")][me.ref]
    nbase0 = H0[("ndarray", "base")]
    # ---- type invariants ------------------------------------------------------------------------------------------------
    ctx.assume(z3.Implies(base0 != 0, z3.And(1 <= base0, base0 <= top0, base0 != me.ref, H0[("Tensor", "_base")][base0] == 0)))
    # The base's gradient need NOT own its memory: Tensor.backward keeps a caller's seed of matching dtype/shape/layout as it is (known
    # finding F6), and that seed may be a window of a larger buffer.  What the getter may rely on is the memory REGION an array covers:
    #   REGION(a)          the set of bytes array a addresses (uninterpreted)
    #   SUBC(t, R)         the region the chain of view-ops leading from the base to tensor t selects out of a base-shaped region R
    #                      (one-step unfolding: SUBC(t, R) = SUB(t, R) if t's parent is the base, else SUB(t, SUBC(parent, R)))
    #   GRADLIKE(a)        a has the base's shape and memory layout (every stored gradient of the base: I1 / I1')
    #   ORIGIN(c)          ghost: the base-gradient array a cached window c was computed from
    ctx.assume(z3.Implies(bgrad0 != 0, z3.And(1 <= bgrad0, bgrad0 <= top0, GRADLIKE(bgrad0))))
    ctx.assume(z3.Implies(z3.And(base0 != 0, creator0 != 0), z3.And(1 <= parent0, parent0 <= top0, parent0 != me.ref)))
    pb = H0[("Tensor", "_base")][parent0]
    ctx.assume(z3.Implies(z3.And(base0 != 0, creator0 != 0), z3.If(pb == 0, parent0 == base0, pb == base0)))  # INV-B
    ctx.assume(z3.Implies(vg0 != 0, z3.And(1 <= vg0, vg0 <= top0)))
    ctx.assume(nbase0[0] == 0)
    # a base of an array is an owner (NumPy collapses chains of views)
    aS = z3.Int("a*")
    for a in (vg0, bgrad0):
        ctx.assume(z3.Implies(nbase0[a] != 0, nbase0[nbase0[a]] == 0))

    # one-step unfolding of SUBC at t, for the two base-shaped regions the proof talks about (the current gradient's, the cache origin's)
    o0 = ORIGIN(vg0)
    for R in (REGION(bgrad0), REGION(o0)):
        ctx.assume(SUBC(me.ref, R) == z3.If(parent0 == base0, SUB(me.ref, R), SUB(me.ref, SUBC(parent0, R))))
    # invariant of the cache (re-established by every cache write, obligation `cache_invariant_reestablished`): a cached window was cut, by
    # t's own chain of view-ops, from an array that was a gradient of the base; NumPy reports the owner of that array's memory as its .base
    # (or the cached array owns its memory -- a view-op replayed on a gradient of another layout copies; nothing is known about it then)
    ctx.assume(z3.Implies(z3.And(vg0 != 0, nbase0[vg0] != 0), z3.And(o0 != 0, GRADLIKE(o0), nbase0[vg0] == z3.If(nbase0[o0] == 0, o0, nbase0[o0]), REGION(vg0) == SUBC(me.ref, REGION(o0)), nbase0[nbase0[o0]] == 0)))
    # axiom (NumPy memory model): an array with the base's shape and layout that is a view of an OWNER with the same shape and layout covers
    # exactly the owner's memory (the owner's buffer has no room for an offset)
    for x, y in ((o0, bgrad0),):
        ctx.assume(z3.Implies(z3.And(GRADLIKE(x), GRADLIKE(y), nbase0[x] == y, nbase0[y] == 0), REGION(x) == REGION(y)))

    meta = dict(function=f"{TB}:Tensor.grad")
    rec = {}

    # ---- callee contracts -----------------------------------------------------------------------------------------------
    def parent_grad_contract(p):
        """the getter's own contract, for the parent (induction hypothesis)"""
        r = ctx.fresh("parent_grad", "int")
        pbase = H("Tensor", "_base")[p.ref]
        ctx.assume(z3.And(r >= 0, r <= heap.cur_top))
        pbg = H("Tensor", "_grad")[pbase]
        ctx.assume(z3.If(pbase == 0, r == H("Tensor", "_grad")[p.ref], z3.Or(r == 0, z3.And(root(r) == root(pbg), REGION(r) == SUBC(p.ref, REGION(pbg))))))
        # frame of the callee: it may refresh `_view_grad` caches of the parent chain, never of `t` (t is not its own ancestor)
        newvg = z3.Array(f"VG!{ctx.fresh_n + 1}", I, I)
        ctx.fresh_n += 1
        ctx.assume(newvg[me.ref] == H("Tensor", "_view_grad")[me.ref])
        ctx.heap[("Tensor", "_view_grad")] = newvg
        rec["parent_result"] = r
        rec["parent"] = p.ref
        log.append(("parent.grad",))
        return SRef("ndarray", r) if not z3.is_int_value(z3.simplify(r)) or z3.simplify(r).as_long() != 0 else None

    real_getter = TensorCls.lookup(interp, "grad")[0].fget
    depth = {"d": 0}

    def dispatch(interp_, args, kwargs):
        if depth["d"] == 0:
            depth["d"] += 1
            try:
                return interp_.call_func(real_getter, args, kwargs)
            finally:
                depth["d"] -= 1
        return parent_grad_contract(args[0])

    cfg.summaries[f"{TB}:Tensor.grad"] = dispatch

    def replay(interp_, args, kwargs):
        me_, g = args[0], args[1]
        log.append(("replay", track["depth"]))
        rec["replay_arg"] = g.ref if isinstance(g, SRef) else None
        rec["replay_recv"] = me_.ref
        out_t = heap.alloc("Tensor")
        arr = heap.new_array(base=root(g.ref))  # axiom: a view-op applied to g yields a view sharing g's memory
        heap.set("Tensor", "data", out_t.ref, arr.ref)
        ctx.assume(REGION(arr.ref) == SUB(me_.ref, REGION(g.ref)))  # ... and addresses the part of g's region its view-op selects
        rec["replay_data"] = arr.ref
        return out_t

    cfg.summaries[f"{TB}:Tensor._replay_op"] = replay
    try:
        r = interp.call(real_getter, [me], {})
    except SymRaise as e:
        ctx.oblige("C06.getter.no_exception", False, raised=e.exc.cls_name(), **meta)
        return
    rz = z3.IntVal(0) if r is None else (r.ref if isinstance(r, SRef) else None)
    ctx.oblige("C06.getter.returns_array_or_None", rz is not None, **meta)
    if rz is None:
        return
    cur = ctx.heap
    # a view of a CONSTANT base has nothing to window onto (constants never hold a gradient, C10): it reports its own gradient, like an owner
    base_const = H0[("Tensor", "_constant")][base0]
    self_const = H0[("Tensor", "_constant")][me.ref]
    is_view = z3.And(base0 != 0, z3.Not(base_const), z3.Not(self_const))
    # ---- owners ---------------------------------------------------------------------------------------------------------
    # C10: a constant tensor does not take part in its base's gradient: as a view of a non-constant base it reports its own `_grad`
    # slot (which back-propagation never writes for a constant: Operation.backward skips constants, C10.constants_untouched)
    ctx.oblige("C10.getter.constant_view_does_not_window_onto_base_gradient", z3.Implies(z3.And(self_const, base0 != 0), rz == H0[("Tensor", "_grad")][me.ref]), **meta)
    ctx.oblige("C06.getter.owner.returns_own_grad", z3.Implies(z3.Not(is_view), rz == H0[("Tensor", "_grad")][me.ref]), **meta)
    ctx.oblige("C06.getter.owner.writes_nothing", z3.Implies(z3.Not(is_view), z3.And(*[cur[k] == H0[k] for k in H0])), **meta)
    # ---- views ----------------------------------------------------------------------------------------------------------
    rootr = z3.If(cur[("ndarray", "base")][rz] == 0, rz, cur[("ndarray", "base")][rz])
    root_bg = z3.If(nbase0[bgrad0] == 0, bgrad0, nbase0[bgrad0])
    ctx.oblige("C06.getter.view.window_onto_current_base_gradient", z3.Implies(z3.And(is_view, rz != 0), z3.And(bgrad0 != 0, rootr == root_bg)), **meta)
    # ... and it is THE corresponding window: the bytes t's chain of view-ops selects out of the base's CURRENT gradient (a window cut from an
    # earlier gradient that lives in the same buffer is refused)
    ctx.oblige("C06.getter.view.is_the_corresponding_window_of_the_current_base_gradient", z3.Implies(z3.And(is_view, rz != 0), REGION(rz) == SUBC(me.ref, REGION(bgrad0))), **meta)
    parent_none = rec.get("parent_result") == 0 if "parent_result" in rec else z3.BoolVal(False)
    ctx.oblige("C06.getter.view.None_only_without_base_grad_or_graph", z3.Implies(z3.And(is_view, rz == 0), z3.Or(bgrad0 == 0, creator0 == 0, parent_none)), **meta)
    recomputed = any(e[0] == "replay" for e in log)
    if recomputed:
        ctx.oblige("C06.getter.view.replay_on_parents_gradient", rec.get("replay_arg") is not None and "parent_result" in rec and z3.And(rec["replay_arg"] == rec["parent_result"], rec["replay_recv"] == me.ref, rec["parent"] == parent0), **meta)
        ctx.oblige("C06.getter.view.replayed_without_graph_tracking", all(e[1] >= 1 for e in log if e[0] == "replay") and track["depth"] == 0, **meta)
        ctx.oblige("C06.getter.view.result_is_replayed_data_and_cached", z3.And(rz == rec["replay_data"], cur[("Tensor", "_view_grad")][me.ref] == rz), **meta)
        # the cache invariant holds for what was written, with the current base gradient as its origin
        nb = cur[("ndarray", "base")]
        ctx.oblige("C06.getter.view.cache_invariant_reestablished", z3.Implies(is_view, z3.And(nb[rz] == root_bg, REGION(rz) == SUBC(me.ref, REGION(bgrad0)))), **meta)
    else:
        # without a replay the cache is left alone, or reset to None when the parent has no gradient to window onto
        reset = z3.And(parent_none, cur[("Tensor", "_view_grad")][me.ref] == 0) if "parent_result" in rec else z3.BoolVal(False)
        ctx.oblige("C06.getter.view.no_recompute_means_cache_kept_or_reset", z3.Or(cur[("Tensor", "_view_grad")][me.ref] == vg0, reset), **meta)
        ctx.oblige("C06.getter.view.cache_reused_only_if_valid", z3.Implies(z3.And(is_view, rz != 0), z3.And(rz == vg0)), **meta)
    # frame: fields of t other than the cache, and every field of tensors that existed on entry other than caches
    tS = z3.Int("t*")
    for (c, f), old in H0.items():
        if c == "Tensor" and f != "_view_grad":
            ctx.oblige(f"C06.getter.frame.Tensor.{f}", z3.Implies(z3.And(1 <= tS, tS <= top0), cur[(c, f)][tS] == old[tS]), **meta)
        elif c == "ndarray":
            ctx.oblige(f"C06.getter.frame.ndarray.{f}", z3.Implies(z3.And(1 <= tS, tS <= top0), cur[(c, f)][tS] == old[tS]), **meta)
        elif c == "Operation":
            ctx.oblige(f"C06.getter.frame.Operation.{f}", cur[(c, f)] == old, **meta)
    ctx.oblige("C06.getter.guard_contexts_balanced", track["depth"] == 0, **meta)


def idempotence_lemma(ctx: Ctx):
    """After a recomputation the cache satisfies the reuse test, so the next read returns the same array object (no recomputation,
    the identity `t.grad is t.grad` the property's `shares memory` relies on)."""
    nbase = z3.Array("nbase", I, I)
    r, bg = z3.Int("r"), z3.Int("bgrad")
    ctx.assume(z3.And(r != 0, bg != 0, nbase[bg] == 0, r != bg))
    rootr = z3.If(nbase[r] == 0, r, nbase[r])
    ctx.assume(rootr == bg)  # POST of the first read
    ctx.oblige("C06.getter.lemma.cache_passes_reuse_test", nbase[r] == bg, kind="lemma", function=f"{TB}:Tensor.grad")


def obligations(tier="quick"):
    out = []
    info = {"functions": {}, "unsupported": [], "paths": 0}
    try:
        _m, node, _c = frontend.find(f"{TB}:Tensor.grad")
        info["functions"][f"{TB}:Tensor.grad"] = frontend.source_hash(node)
    except frontend.ExtractionError as e:
        info["unsupported"].append(str(e))
    for name, h in (("getter", harness), ("lemma", idempotence_lemma)):
        results = explore(h)
        k = 0
        for r in results:
            if r.outcome == "unsupported":
                info["unsupported"].append(f"{name}: {r.value}")
                continue
            k += 1
            for o in r.ctx.obligations:
                o.name = f"{o.name}.p{k}"
                out.append(o)
        info["paths"] += k
        if k == 0:
            info["unsupported"].append(f"{name}: no completed path")
    return out, info
