"""C08.lock / C08.release / C13.lock_release — per-call contracts of lock_management.

State: C = _array_counter (Counter id -> int), T = _array_tracker (dict id -> weakref), W =
_views_waiting_for_unlock (defaultdict id -> set of ids); per array: writeable flag w, base, alive.
id() is the array's reference; ids of *live* arrays are distinct, a dead array's id may be reused (stale tracker entries).

array_is_tracked(a)  ==  id(a) in T  and  the weak reference is alive
lock_arr_writeability(a, force):
   tracked := array_is_tracked(a)
   if not tracked and not force and not w(a) and (a.base is None or not tracked(a.base)):   nothing changes
   else:  C[id a] = 1 if not tracked else C[id a] + 1;  T[id a] refers to a;  w(a) := False
   returns a;  frame: no other key of C/T, W untouched, no other array's flag
_release_lock_on_arr_writeability(a), first part (up to the loop over waiting views):
   n := C[id a] (0 when absent; reading does not insert)
   n = 1:  key removed from C;  if a.base is not None and not w(a.base):  id a added to W[id base], w(a), T unchanged
           else: w(a) := True, T entry removed, and W cleared iff T became empty
   n > 1:  C[id a] = n - 1, nothing else
   n <= 0: nothing
   (illegal flag writes are impossible: writeable=True is only assigned when a owns its memory or its base is writeable)
lemma (z3, over the two contracts): for an array that is untracked and writeable, lock followed by release restores
   C, T and w on that array (a failed operation leaves no lock behind: C13).
"""
from __future__ import annotations

import z3

from pyvc import frontend
from pyvc.builtins_model import TypeToken, default_builtins
from pyvc.heapdom import SetRef, SymDict
from pyvc.interp import Config, Ctx, ExcInst, GlobalCell, Interp, LoopSpec, Opaque, PathCut, SRef, SymRaise, Unsupported, explore, to_z3

LM = "mygrad._utils.lock_management"
I = z3.IntSort()
Bo = z3.BoolSort()


class Flags:
    def __init__(self, ctx, ref, log):
        self.ctx, self.ref, self.log = ctx, ref, log

    def __sym_getattr__(self, interp, name):
        if name == "writeable":
            return z3.Select(self.ctx.heap[("ndarray", "writeable")], self.ref)
        raise Unsupported(f"flags.{name}")

    def __sym_setattr__(self, interp, name, v):
        if name != "writeable":
            raise Unsupported(f"flags.{name} = ...")
        h = self.ctx.heap
        vz = to_z3(v)
        base = z3.Select(h[("ndarray", "base")], self.ref)
        basew = z3.Select(h[("ndarray", "writeable")], base)
        # NumPy precondition for switching the flag on
        legal = z3.Or(z3.Not(vz), base == 0, basew)
        if not interp.truth(legal):
            self.log.append(("illegal-flag-write", self.ref))
            raise SymRaise(ExcInst(ValueError, ("cannot set WRITEABLE flag to True of this array",)))
        self.log.append(("flag", self.ref, vz))
        h[("ndarray", "writeable")] = z3.Store(h[("ndarray", "writeable")], self.ref, vz)


class ArrModel:
    def __init__(self, ctx, log):
        self.ctx, self.log = ctx, log

    def getattr(self, interp, o, name):
        if name == "flags":
            return Flags(self.ctx, o.ref, self.log)
        if name == "base":
            return SRef("ndarray", z3.Select(self.ctx.heap[("ndarray", "base")], o.ref))
        raise Unsupported(f"ndarray.{name}")


class WeakRefObj:
    def __init__(self, ctx, referent):
        self.ctx, self.referent = ctx, referent

    def __call__(self):
        alive = z3.Select(self.ctx.ghost["ALIVE"], self.referent)
        return SRef("ndarray", z3.If(alive, self.referent, 0))


def setup(ctx):
    cfg = Config()
    cfg.builtins = default_builtins()
    log = []
    ctx.field("ndarray", "writeable", Bo)
    ctx.field("ndarray", "base", I)
    ALIVE = z3.Array("ALIVE", I, Bo)
    ctx.ghost["ALIVE"] = ALIVE
    C = SymDict(ctx, "C", I, kind="counter")
    T = SymDict(ctx, "T", I, wrap=lambda v: WeakRefObj(ctx, v), unwrap=lambda v: v.referent if isinstance(v, WeakRefObj) else to_z3(v))
    W = SymDict(ctx, "W", z3.ArraySort(I, Bo), kind="defaultdict")
    W.wrap = None  # replaced below (needs the key)
    orig_get = W.__sym_getitem__

    def w_getitem(interp, k):
        kz = W._k(k)
        if not interp.truth(z3.Select(W.dom, kz)):
            W.dom = z3.Store(W.dom, kz, True)
            W.val = z3.Store(W.val, kz, z3.K(I, z3.BoolVal(False)))
            W.writes += 1
        return SetRef(W, kz)

    W.__sym_getitem__ = w_getitem
    type(W).__sym_getitem__  # keep class method for others
    cfg.global_overrides[(LM, "_array_counter")] = C
    cfg.global_overrides[(LM, "_array_tracker")] = T
    cfg.global_overrides[(LM, "_views_waiting_for_unlock")] = _WProxy(W, w_getitem)
    cfg.builtins["weakref.ref"] = lambda a: WeakRefObj(ctx, a.ref)
    cfg.ref_models["ndarray"] = ArrModel(ctx, log)
    interp = Interp(ctx, cfg)
    return cfg, interp, C, T, W, ALIVE, log


class _WProxy:
    """defaultdict(set) view of the symbolic dict W"""

    def __init__(self, W, getitem):
        self.W, self._get = W, getitem

    def __sym_getitem__(self, interp, k):
        return self._get(interp, k)

    def __sym_contains__(self, interp, k):
        return self.W.has(k)

    def __sym_truth__(self, interp):
        return self.W.__sym_truth__(interp)

    def __sym_getattr__(self, interp, name):
        return self.W.__sym_getattr__(interp, name)


def well_formed(ctx, a, b, C, T, W, ALIVE):
    """type invariants of the inputs"""
    h = ctx.heap
    ctx.assume(a >= 1)
    ctx.assume(ALIVE[a])
    ctx.assume(b == h[("ndarray", "base")][a])
    ctx.assume(z3.Implies(b != 0, z3.And(b >= 1, b != a, ALIVE[b], h[("ndarray", "base")][b] == 0)))
    ctx.assume(z3.Not(ALIVE[0]))
    # a tracker entry under key id(x) refers to x itself, or to a *dead* array that used to live at the same address (CPython reuses
    # ids of freed objects; such a stale entry must not count as "tracked"); counters of tracked arrays are >= 1
    for k in (a, b):
        ctx.assume(z3.Implies(T.has(k), z3.Or(T.get_raw(k) == k, z3.And(T.get_raw(k) != 0, z3.Not(ALIVE[T.get_raw(k)])))))
        ctx.assume(z3.Implies(C.has(k), C.get_raw(k) >= 1))
    ctx.assume(z3.Not(T.has(0)))


def lock_harness(force):
    def h(ctx: Ctx):
        cfg, interp, C, T, W, ALIVE, log = setup(ctx)
        a, b = z3.Int("a"), z3.Int("a_base")
        well_formed(ctx, a, b, C, T, W, ALIVE)
        H0 = dict(ctx.heap)
        C0, T0, W0 = C.snapshot(), T.snapshot(), W.snapshot()
        w0 = H0[("ndarray", "writeable")]
        tracked = z3.And(T0[0][a], ALIVE[T0[1][a]])  # the entry's referent is alive (then it is `a` itself)
        base_tracked = z3.And(b != 0, T0[0][b], ALIVE[T0[1][b]])
        f = interp.global_lookup(interp.module(LM), "lock_arr_writeability")
        meta = dict(function=f"{LM}:lock_arr_writeability", force=force)
        tag = f"C08.lock[force={force}]"
        try:
            r = interp.call(f, [SRef("ndarray", a)], {"force_lock": force} if force is not None else {})
        except SymRaise as e:
            ctx.oblige(f"{tag}.no_exception", False, raised=e.exc.cls_name(), **meta)
            return
        noop = z3.And(z3.Not(tracked), z3.BoolVal(not force), z3.Not(w0[a]), z3.Or(b == 0, z3.Not(base_tracked)))
        wN = ctx.heap[("ndarray", "writeable")]
        kS = z3.Int("k*")
        ctx.oblige(f"{tag}.returns_arr", isinstance(r, SRef) and r.ref.eq(a), **meta)
        ctx.oblige(f"{tag}.noop_case", z3.Implies(noop, z3.And(C.dom == C0[0], C.val == C0[1], T.dom == T0[0], T.val == T0[1], wN == w0)), **meta)
        ctx.oblige(f"{tag}.count", z3.Implies(z3.Not(noop), z3.And(C.dom[a], C.val[a] == z3.If(tracked, z3.If(C0[0][a], C0[1][a], 0) + 1, 1))), **meta)
        ctx.oblige(f"{tag}.tracked_after", z3.Implies(z3.Not(noop), z3.And(T.dom[a], T.val[a] == a)), **meta)
        ctx.oblige(f"{tag}.read_only_after", z3.Implies(z3.Not(noop), z3.Not(wN[a])), **meta)
        ctx.oblige(f"{tag}.frame.other_keys", z3.Implies(kS != a, z3.And(C.dom[kS] == C0[0][kS], C.val[kS] == C0[1][kS], T.dom[kS] == T0[0][kS], T.val[kS] == T0[1][kS], wN[kS] == w0[kS])), **meta)
        ctx.oblige(f"{tag}.frame.W", z3.And(W.dom == W0[0], W.val == W0[1]), **meta)
        ctx.oblige(f"{tag}.frame.base_field", ctx.heap[("ndarray", "base")] == H0[("ndarray", "base")], **meta)
        ctx.oblige(f"{tag}.no_illegal_flag_write", not any(e[0] == "illegal-flag-write" for e in log), **meta)

    return h


def release_harness(ctx: Ctx):
    cfg, interp, C, T, W, ALIVE, log = setup(ctx)
    a, b = z3.Int("a"), z3.Int("a_base")
    well_formed(ctx, a, b, C, T, W, ALIVE)
    H0 = dict(ctx.heap)
    C0, T0, W0 = C.snapshot(), T.snapshot(), W.snapshot()
    w0 = H0[("ndarray", "writeable")]
    n = z3.If(C0[0][a], C0[1][a], 0)
    # the trailing loop over waiting views: entry obligations + the contract of one arbitrary iteration (iteration_contract below); the loop spec
    # itself only marks the cut
    spec = LoopSpec(invariant=lambda i_, e_, k: [], modifies=("view_arr_id", "view_arr"), heap_modifies=[])
    cfg.loop_specs[(f"{LM}:_release_lock_on_arr_writeability", 0)] = spec
    f = interp.global_lookup(interp.module(LM), "_release_lock_on_arr_writeability")
    meta = dict(function=f"{LM}:_release_lock_on_arr_writeability")
    tag = "C08.release"
    state_before_loop = {}
    orig = interp.for_with_spec

    def hook(node, frame, it, spec_, ordinal):
        state_before_loop["reached"] = True
        # the views waiting for this array are dealt with only at the moment the array is an owner that has just become writeable
        # again: NumPy refuses to make a view writeable while its base is read-only, and an early attempt would drop the view from
        # the waiting list and the tracker for good
        wN = ctx.heap[("ndarray", "writeable")]
        ctx.oblige(f"{tag}.waiting_views_processed_only_when_owner_is_writeable_again", z3.And(b == 0, wN[a]), **meta)
        post(True)
        iteration_contract(node, frame)
        raise PathCut()

    def iteration_contract(node, frame):
        """One arbitrary iteration of the loop over the views waiting for `a`, for an arbitrary waiting id v (the loop body runs on the real AST).
        Table invariant assumed for the entry: v waits under the id of its own base (established at the insertion site, obligation
        n1.view_waits_for_locked_base), v is not the base itself.  Ensures, with c = _array_counter[v] (0 when absent):
          c > 0  : nothing changes at all (the view is in use by a newer operation and keeps waiting)
          c <= 0 : v leaves the waiting set and the tracker; if its tracker entry referred to a live array -- then it is v -- that array is
                   writeable afterwards (legal: its base `a` is writeable again)
          frame  : no other key of the counter / tracker / flags, no other member of the waiting set, no other waiting set is touched
        Iterations for different ids touch disjoint keys, so the state an iteration starts from agrees with the loop-entry state at v and at a;
        the per-iteration contract therefore gives, by induction over the enumeration, "after the loop every waiting view not in use has been
        released and forgotten, every view in use still waits".  (The cleanup statement after the loop -- dropping an empty waiting set -- is
        not under contract.)"""
        from pyvc.interp import _Continue

        h = ctx.heap
        v = z3.Int("v*")
        ctx.assume(z3.And(v >= 1, v != a, z3.Select(z3.Select(W.val, a), v), W.dom[a]))
        ctx.assume(h[("ndarray", "base")][v] == a)
        ctx.assume(z3.Implies(T.has(v), z3.Or(T.get_raw(v) == v, z3.And(T.get_raw(v) != 0, z3.Not(ALIVE[T.get_raw(v)])))))
        C1, T1, W1 = C.snapshot(), T.snapshot(), W.snapshot()
        w1 = h[("ndarray", "writeable")]
        nlog = len(log)
        cv = z3.If(C1[0][v], C1[1][v], 0)
        interp.assign(node.target, v, frame)
        try:
            interp.exec_block(node.body, frame)
        except _Continue:
            pass
        wN = ctx.heap[("ndarray", "writeable")]
        kS, uS = z3.Int("k*"), z3.Int("u*")
        itag, imeta = f"{tag}.iteration", dict(meta, part="one arbitrary iteration of the waiting-view loop")
        busy = cv > 0
        same_everything = z3.And(C.dom == C1[0], C.val == C1[1], T.dom == T1[0], T.val == T1[1], W.dom == W1[0], W.val == W1[1], wN == w1)
        ctx.oblige(f"{itag}.view_in_use_keeps_waiting_untouched", z3.Implies(busy, same_everything), **imeta)
        ctx.oblige(f"{itag}.idle_view_leaves_waiting_set_and_tracker", z3.Implies(z3.Not(busy), z3.And(z3.Not(z3.Select(z3.Select(W.val, a), v)), z3.Not(T.dom[v]))), **imeta)
        live = z3.And(T1[0][v], ALIVE[T1[1][v]])
        ctx.oblige(f"{itag}.idle_live_view_made_writeable", z3.Implies(z3.And(z3.Not(busy), live), wN[v]), **imeta)
        ctx.oblige(f"{itag}.dead_or_untracked_view_no_flag_write", z3.Implies(z3.And(z3.Not(busy), z3.Not(live)), wN == w1), **imeta)
        ctx.oblige(f"{itag}.frame.other_keys", z3.Implies(kS != v, z3.And(C.dom[kS] == C1[0][kS], C.val[kS] == C1[1][kS], T.dom[kS] == T1[0][kS], T.val[kS] == T1[1][kS], wN[kS] == w1[kS])), **imeta)
        ctx.oblige(f"{itag}.frame.counter_of_the_view", z3.And(C.dom[v] == C1[0][v], z3.Implies(C.dom[v], C.val[v] == C1[1][v])), **imeta)
        ctx.oblige(f"{itag}.frame.other_waiting_members", z3.Implies(uS != v, z3.Select(z3.Select(W.val, a), uS) == z3.Select(z3.Select(W1[1], a), uS)), **imeta)
        ctx.oblige(f"{itag}.frame.other_waiting_sets", z3.Implies(kS != a, z3.And(W.dom[kS] == W1[0][kS], z3.Select(W.val, kS) == z3.Select(W1[1], kS))), **imeta)
        ctx.oblige(f"{itag}.no_illegal_flag_write", not any(e[0] == "illegal-flag-write" for e in log[nlog:]), **imeta)
        ctx.oblige(f"{itag}.frame.base_field", ctx.heap[("ndarray", "base")] == H0[("ndarray", "base")], **imeta)

    def post(in_loop_branch):
        wN = ctx.heap[("ndarray", "writeable")]
        kS = z3.Int("k*")
        base_locked = z3.And(b != 0, z3.Not(w0[b]))
        c1 = n == 1
        ctx.oblige(f"{tag}.n1.counter_removed", z3.Implies(c1, z3.Not(C.dom[a])), **meta)
        ctx.oblige(f"{tag}.n1.view_waits_for_locked_base", z3.Implies(z3.And(c1, base_locked), z3.And(W.dom[b], z3.Select(W.val[b], a), wN[a] == w0[a], T.dom[a] == T0[0][a])), **meta)
        ctx.oblige(f"{tag}.n1.unlocked", z3.Implies(z3.And(c1, z3.Not(base_locked)), z3.And(wN[a], z3.Not(T.dom[a]))), **meta)
        ctx.oblige(f"{tag}.n_gt_1.decrement_only", z3.Implies(n > 1, z3.And(C.dom[a], C.val[a] == n - 1, wN[a] == w0[a], T.dom[a] == T0[0][a])), **meta)
        if not in_loop_branch:
            ctx.oblige(f"{tag}.n_le_0.nothing", z3.Implies(n <= 0, z3.And(C.dom[a] == C0[0][a], wN[a] == w0[a], T.dom[a] == T0[0][a])), **meta)
        ctx.oblige(f"{tag}.frame.other_counters_trackers_flags", z3.Implies(kS != a, z3.And(C.dom[kS] == C0[0][kS], C.val[kS] == C0[1][kS], wN[kS] == w0[kS], z3.Implies(T.dom[kS], z3.And(T0[0][kS], T.val[kS] == T0[1][kS])))), **meta)
        ctx.oblige(f"{tag}.no_illegal_flag_write", not any(e[0] == "illegal-flag-write" for e in log), **meta)
        ctx.oblige(f"{tag}.frame.base_field", ctx.heap[("ndarray", "base")] == H0[("ndarray", "base")], **meta)

    interp.for_with_spec = hook
    try:
        interp.call(f, [SRef("ndarray", a)], {})
    except SymRaise as e:
        ctx.oblige(f"{tag}.no_exception", False, raised=e.exc.cls_name(), **meta)
        return
    post(False)
    # ... and they are not forgotten: an owner that is writeable again and has waiting views does reach the loop
    wN = ctx.heap[("ndarray", "writeable")]
    ctx.oblige(f"{tag}.waiting_views_not_skipped", z3.Not(z3.And(b == 0, wN[a], W.dom[a])), **meta)


def roundtrip_lemma(ctx: Ctx):
    """lock ; release on an untracked, writeable array a (owner or view of a writeable base) restores (C, T, w) at a."""
    a = z3.Int("a")
    C0d, C0v = z3.Array("C0d", I, Bo), z3.Array("C0v", I, I)
    T0d = z3.Array("T0d", I, Bo)
    w0 = z3.Array("w0", I, Bo)
    b = z3.Int("b")
    ctx.assume(z3.And(z3.Not(T0d[a]), z3.Not(C0d[a]), w0[a], z3.Or(b == 0, w0[b])))
    # after lock (contract, non-noop case since w0[a]): C[a]=1, T[a] set, w[a]=False, everything else unchanged
    C1d, C1v = z3.Store(C0d, a, True), z3.Store(C0v, a, 1)
    T1d = z3.Store(T0d, a, True)
    w1 = z3.Store(w0, a, False)
    # release (contract, n = 1, base not locked -- the base's flag is untouched by locking a)
    base_locked = z3.And(b != 0, z3.Not(w1[b]))
    ctx.assume(b != a)
    C2d = z3.Store(C1d, a, False)
    w2 = z3.Store(w1, a, True)
    T2d = z3.Store(T1d, a, False)
    ctx.oblige("C13.lock_release_roundtrip.base_not_locked", z3.Not(base_locked), kind="lemma")
    ctx.oblige("C13.lock_release_roundtrip.flag", w2[a] == w0[a], kind="lemma")
    ctx.oblige("C13.lock_release_roundtrip.counter", C2d[a] == C0d[a], kind="lemma")
    ctx.oblige("C13.lock_release_roundtrip.tracker", T2d[a] == T0d[a], kind="lemma")


def tracked_harness(ctx: Ctx):
    cfg, interp, C, T, W, ALIVE, log = setup(ctx)
    a, b = z3.Int("a"), z3.Int("a_base")
    well_formed(ctx, a, b, C, T, W, ALIVE)
    alive_target = z3.Bool("referent_alive")
    f = interp.global_lookup(interp.module(LM), "array_is_tracked")
    T0 = T.snapshot()
    r = interp.call(f, [SRef("ndarray", a)], {})
    rz = to_z3(r)
    ctx.oblige("C08.array_is_tracked.definition", rz == z3.And(T0[0][a], ALIVE[T0[1][a]]), function=f"{LM}:array_is_tracked")
    ctx.oblige("C08.array_is_tracked.pure", z3.And(T.dom == T0[0], T.val == T0[1]), function=f"{LM}:array_is_tracked")


def obligations(tier="quick"):
    out = []
    info = {"functions": {}, "unsupported": [], "paths": 0}
    for q in (f"{LM}:lock_arr_writeability", f"{LM}:_release_lock_on_arr_writeability", f"{LM}:array_is_tracked"):
        try:
            _m, node, _c = frontend.find(q)
            info["functions"][q] = frontend.source_hash(node)
        except frontend.ExtractionError as e:
            info["unsupported"].append(str(e))
    hs = [(f"lock[{f}]", lock_harness(f)) for f in (None, False, True)] + [("release", release_harness), ("roundtrip", roundtrip_lemma), ("tracked", tracked_harness)]
    for name, h in hs:
        results = explore(h)
        k = 0
        for r in results:
            if r.outcome == "unsupported":
                info["unsupported"].append(f"{name}: {r.value}")
                continue
            k += 1
            for o in r.ctx.obligations:
                o.name = f"{o.name}.p{k}"
                out.append(o)
        info["paths"] += k
        if k == 0:
            info["unsupported"].append(f"{name}: no completed path")
    return out, info
