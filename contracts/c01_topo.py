"""C01.topo / C07.null — contract of collect_all_tensors_and_clear_grads(t, seen, topo)  (recursive).

Ghost view: SEEN (set of ids), the deque as positions POS with a left end LEFT (`appendleft` decrements LEFT),
graph edges dep(u, j) = "u has a creator and v = creator.variables[j]"; rank is any function that decreases
along edges (acyclicity of the recorded graph, invariant OWN).
 requires  Closed(SEEN): u in SEEN, v an input of u, v non-constant  =>  v in SEEN
           Topo(SEEN, POS): ... => POS[u] < POS[v]   (every consumer is left of its inputs);
           members of SEEN have pairwise distinct positions >= LEFT
 ensures   the same predicates on the new state;  SEEN subset SEEN';  t non-constant => t in SEEN'
           positions of old members unchanged; every new member is strictly left of every old member
           every new member u is non-constant, has rank[u] <= rank[t], and u._grad = u._view_grad = None
           t._grad = t._view_grad = None;  gradients are only ever set to None (never otherwise written); no other field of any object is written
 decreases rank[t]   (each recursive call is made on an input of t)
The recursive calls inside the loop over creator.variables are replaced by this contract (induction);
the loop carries the invariant listed in `INV` below.  VCs are quantifier-free: goals at skolems (u*, w*, j*),
hypotheses instantiated over {u*, w*, t, variables[k], variables(creator u*)[j*]} x {j*, k}.
"""
from __future__ import annotations

import itertools

import z3

from pyvc import frontend
from pyvc.builtins_model import default_builtins
from pyvc.graphdom import Heap, TensorModel
from pyvc.heapdom import SymIntSet
from pyvc.interp import Config, Ctx, Interp, LoopSpec, SRef, SSeq, SymRaise, Unsupported, explore, to_z3

UT = "mygrad._utils"
TB = "mygrad.tensor_base"
I = z3.IntSort()
Bo = z3.BoolSort()
Q = f"{UT}:collect_all_tensors_and_clear_grads"


class St:
    """ghost + heap state relevant to the contract"""

    def __init__(self, seen, pos, left, g, vg, right=None):
        self.seen, self.pos, self.left, self.g, self.vg, self.right = seen, pos, left, g, vg, right


def harness(ctx: Ctx):
    cfg = Config()
    cfg.builtins = default_builtins()
    heap = Heap(ctx)
    ctx.field("Operation", "variables", z3.ArraySort(I, I))
    ctx.field("Operation", "nvars", I)
    interp = Interp(ctx, cfg)
    TensorCls = interp.global_lookup(interp.module(TB), "Tensor")
    H = ctx.heap
    const, cr = H[("Tensor", "_constant")], H[("Tensor", "_creator")]
    V, NV = H[("Operation", "variables")], H[("Operation", "nvars")]
    rank = z3.Array("rank", I, I)
    t = z3.Int("t")
    ctx.assume(t >= 1)
    uS, wS, jS = z3.Int("u*"), z3.Int("w*"), z3.Int("j*")

    class OM:
        def getattr(self, interp_, o, name):
            if name == "variables":
                return SSeq(z3.Select(NV, o.ref), lambda j: SRef("Tensor", z3.Select(z3.Select(V, o.ref), to_z3(j))), "tuple", "creator.variables")
            raise Unsupported(f"Operation.{name}")

    cfg.ref_models["Tensor"] = TensorModel(heap, TensorCls)
    cfg.ref_models["Operation"] = OM()

    # ---- ghost state objects handed to the function ------------------------------------------------------
    seen = SymIntSet(ctx, "SEEN")
    ghost = {"pos": z3.Array("POS", I, I), "left": z3.Int("LEFT"), "right": z3.Int("RIGHT")}

    class Deque:
        def __sym_getattr__(self, interp_, name):
            if name == "appendleft":
                def appendleft(x):
                    ghost["left"] = ghost["left"] - 1
                    ghost["pos"] = z3.Store(ghost["pos"], x.ref, ghost["left"])
                    ctx.ghost.setdefault("appended", []).append(x.ref)
                return appendleft
            if name == "append":
                def append(x):
                    ghost["pos"] = z3.Store(ghost["pos"], x.ref, ghost["right"])
                    ghost["right"] = ghost["right"] + 1
                    ctx.ghost.setdefault("appended", []).append(x.ref)
                return append
            raise Unsupported(f"deque.{name}")

    topo = Deque()

    def cur():
        return St(seen.mem, ghost["pos"], ghost["left"], ctx.heap[("Tensor", "_grad")], ctx.heap[("Tensor", "_view_grad")], ghost["right"])

    S0 = cur()

    def inp(u, j):  # j-th input of u
        return z3.Select(z3.Select(V, cr[u]), j)

    def edge(u, j):
        return z3.And(cr[u] != 0, 0 <= j, j < NV[cr[u]])

    def dep(u, j):
        return z3.And(edge(u, j), z3.Not(const[inp(u, j)]))

    # well-formed clauses about a state (kinds: U = one tensor, UJ = tensor+index, UW = two tensors)
    def WF(S):
        return [
            ("closed", "UJ", lambda u, j: z3.Implies(z3.And(S.seen[u], dep(u, j)), S.seen[inp(u, j)])),
            ("topo", "UJ", lambda u, j: z3.Implies(z3.And(S.seen[u], dep(u, j)), S.pos[u] < S.pos[inp(u, j)])),
            ("left_bound", "U", lambda u: z3.Implies(S.seen[u], z3.And(S.pos[u] >= S.left, S.pos[u] < S.right))),
            ("distinct", "UW", lambda u, w: z3.Implies(z3.And(S.seen[u], S.seen[w], u != w), S.pos[u] != S.pos[w])),
            ("members_nonconstant", "U", lambda u: z3.Implies(S.seen[u], z3.And(z3.Not(const[u]), u >= 1))),
        ]

    GRAPH = [
        ("rank", "UJ", lambda u, j: z3.Implies(edge(u, j), z3.And(rank[inp(u, j)] < rank[u], inp(u, j) >= 1))),
        ("nvars", "U", lambda u: NV[cr[u]] >= 0),
    ]

    # relation between a pre-state A and a post-state B of one call on tensor c
    def POST(A, B, c):
        new = lambda u: z3.And(B.seen[u], z3.Not(A.seen[u]))  # noqa
        return [
            ("seen_grows", "U", lambda u: z3.Implies(A.seen[u], B.seen[u])),
            ("old_positions_kept", "U", lambda u: z3.Implies(A.seen[u], B.pos[u] == A.pos[u])),
            ("new_left_of_old", "U", lambda u: z3.Implies(new(u), z3.And(B.pos[u] < A.left, B.pos[u] >= B.left))),
            ("new_members", "U", lambda u: z3.Implies(new(u), z3.And(z3.Not(const[u]), rank[u] <= rank[c], B.g[u] == 0, B.vg[u] == 0))),
            # every visited tensor (also constants and already-seen ones) has its gradient nulled; nothing else is written
            ("grads_only_nulled", "U", lambda u: z3.And(z3.Or(B.g[u] == A.g[u], B.g[u] == 0), z3.Or(B.vg[u] == A.vg[u], B.vg[u] == 0))),
        ], [
            ("left_monotone", z3.And(B.left <= A.left, B.right == A.right, B.left <= B.right)),
            ("receiver_member", z3.Implies(z3.Not(const[c]), B.seen[c])),
            ("receiver_grads_none", z3.And(B.g[c] == 0, B.vg[c] == 0)),
        ]

    def terms(extra=()):
        T = [uS, wS, t] + list(extra)
        T += [inp(uS, jS), inp(t, jS)]
        return T

    def inst(clauses, T, J):
        out = []
        for (nm, kinds, fn) in clauses:
            if kinds == "U":
                out += [fn(u) for u in T]
            elif kinds == "UJ":
                out += [fn(u, j) for u in T for j in J]
            elif kinds == "UW":
                out += [fn(u, w) for u, w in itertools.product(T, repeat=2)]
        return out

    def goals(clauses):
        out = []
        for (nm, kinds, fn) in clauses:
            if kinds == "U":
                out.append((nm, fn(uS)))
            elif kinds == "UJ":
                out.append((nm, fn(uS, jS)))
            else:
                out.append((nm, fn(uS, wS)))
        return out

    # ---- requires ---------------------------------------------------------------------------------------------
    ctx.assume(S0.left <= S0.right)
    base_J = [jS]
    for f_ in inst(WF(S0) + GRAPH, terms(), base_J):
        ctx.assume(f_)
    frames0 = {k: v for k, v in ctx.heap.items() if k not in (("Tensor", "_grad"), ("Tensor", "_view_grad"))}

    # ---- recursive calls: the function's own contract ---------------------------------------------------------
    depth = {"d": 0}
    real = interp.global_lookup(interp.module(UT), "collect_all_tensors_and_clear_grads")
    meta = dict(function=Q)

    def rec_contract(interp_, args, kwargs):
        c = args[0].ref
        k = ctx.ghost.get("cur_k")
        ctx.oblige("C01.topo.recursion_on_kth_input", z3.And(z3.BoolVal(k is not None), c == inp(t, k) if k is not None else False), **meta)
        ctx.oblige("C01.topo.recursion_passes_same_seen_and_deque", len(args) >= 3 and args[1] is seen and args[2] is topo, **meta)
        ctx.oblige("C01.topo.decreases_rank", rank[c] < rank[t], **meta)
        A = cur()
        # requires of the callee = the well-formedness the invariant maintains (goals at skolems)
        for nm, fml in goals(WF(A)):
            ctx.oblige(f"C01.topo.callee_requires.{nm}", fml, **meta)
        # havoc + assume ensures
        seen.mem = z3.Array(f"SEEN!{ctx.fresh_n + 1}", I, Bo)
        ctx.fresh_n += 1
        ghost["pos"] = z3.Array(f"POS!{ctx.fresh_n + 1}", I, I)
        ghost["left"] = ctx.fresh("LEFT", "int")
        ghost["right"] = ctx.fresh("RIGHT", "int")
        ctx.havoc_field("Tensor", "_grad")
        ctx.havoc_field("Tensor", "_view_grad")
        B = cur()
        T = terms([c])
        cl, ground = POST(A, B, c)
        for f_ in inst(cl + WF(B), T, [jS, k]):
            ctx.assume(f_)
        for nm, f_ in ground:
            ctx.assume(f_)
        return None

    def dispatch(interp_, args, kwargs):
        if depth["d"] == 0:
            depth["d"] += 1
            try:
                return interp_.call_func(real, args, kwargs)
            finally:
                depth["d"] -= 1
        return rec_contract(interp_, args, kwargs)

    cfg.summaries[Q] = dispatch

    # ---- loop invariant ------------------------------------------------------------------------------------------
    def INV(k):
        S = cur()
        cl, ground = POST(S0_after_null["S"], S, t)  # relation entry(after nulling t) -> now, with receiver bound `t` (rank <= rank t)
        extra = [
            ("inputs_done", "J", lambda j: z3.Implies(z3.And(0 <= j, j < k, z3.Not(const[inp(t, j)])), S.seen[inp(t, j)])),
            ("new_rank_below_t", "U", lambda u: z3.Implies(z3.And(S.seen[u], z3.Not(S0.seen[u])), rank[u] < rank[t])),
        ]
        ground2 = [("left_monotone", z3.And(S.left <= S0.left, S.right == S0.right, S.left <= S.right)), ("t_not_yet_member", z3.Not(S.seen[t])), ("t_grads_none", z3.And(S.g[t] == 0, S.vg[t] == 0)),
                   ("frame_other_fields", z3.And(*[ctx.heap[key] == val for key, val in frames0.items()]))]
        return S, [c_ for c_ in cl if c_[0] != "new_members"] + [("new_members", "U", lambda u: z3.Implies(z3.And(S.seen[u], z3.Not(S0.seen[u])), z3.And(z3.Not(const[u]), S.g[u] == 0, S.vg[u] == 0)))] + WF(S), extra, ground2

    S0_after_null = {}

    def inv_goals(interp_, env, k):
        if "S" not in S0_after_null:
            S0_after_null["S"] = St(S0.seen, S0.pos, S0.left, ctx.heap[("Tensor", "_grad")], ctx.heap[("Tensor", "_view_grad")], S0.right)
        S, cl, extra, ground = INV(k)
        out = list(ground) + goals(cl)
        out += [(nm, fn(jS)) for nm, kinds, fn in extra if kinds == "J"]
        out += [(nm, fn(uS)) for nm, kinds, fn in extra if kinds == "U"]
        return out

    def inv_hyps(interp_, env, k):
        S, cl, extra, ground = INV(k)
        T = terms()
        J = [jS]
        if z3.is_expr(k) and not z3.is_int_value(k):
            n_t = NV[cr[t]]
            if not k.eq(n_t):
                T = terms([inp(t, k)])
                J = [jS, k]
                for f_ in inst(GRAPH + WF(S0), T, J):
                    ctx.assume(f_)
        out = list(ground)
        out += [(nm, f_) for nm, f_ in zip(itertools.repeat("inst"), inst(cl, T, J))]
        for nm, kinds, fn in extra:
            out += [(nm, fn(x)) for x in (J if kinds == "J" else T)]
        return out

    def havoc(interp_, env):
        seen.mem = z3.Array(f"SEEN!{ctx.fresh_n + 1}", I, Bo)
        ctx.fresh_n += 1
        ghost["pos"] = z3.Array(f"POS!{ctx.fresh_n + 1}", I, I)
        ghost["left"] = ctx.fresh("LEFT", "int")
        ghost["right"] = ctx.fresh("RIGHT", "int")

    spec = LoopSpec(invariant=inv_goals, modifies=("t_loop",), heap_modifies=[("Tensor", "_grad"), ("Tensor", "_view_grad")], havoc=havoc)
    spec.assume_invariant = inv_hyps
    spec.expect_iterable = (NV[cr[t]], lambda j: inp(t, j))  # every input of the creator is visited
    cfg.loop_specs[(Q, 0)] = spec

    # ---- run ------------------------------------------------------------------------------------------------------
    try:
        interp.call(real, [SRef("Tensor", t), seen, topo], {})
    except SymRaise as e:
        ctx.oblige("C01.topo.no_exception", False, raised=e.exc.cls_name(), **meta)
        return
    Sf = cur()
    A = St(S0.seen, S0.pos, S0.left, S0.g, S0.vg, S0.right)
    cl, ground = POST(A, Sf, t)
    # the final-state hypotheses: loop's Inv(n) has been instantiated at the skolems by the loop rule (or the early-return paths have no loop)
    for nm, fml in goals(cl + WF(Sf)):
        ctx.oblige(f"C01.topo.post.{nm}", fml, **meta)
    for nm, fml in ground:
        ctx.oblige(f"C01.topo.post.{nm}", fml, **meta)
    ctx.oblige("C01.topo.post.frame_other_fields", z3.And(*[ctx.heap[key] == val for key, val in frames0.items()]), **meta)
    ctx.oblige("C07.null.visited_tensor_grads_none", z3.And(Sf.g[t] == 0, Sf.vg[t] == 0), **meta)
    app = ctx.ghost.get("appended", [])
    ctx.oblige("C01.topo.appends_only_self_at_most_once", z3.And(*[a == t for a in app]) if app else True, **meta)
    ctx.oblige("C01.topo.at_most_one_append_by_this_call", len(app) <= 1, **meta)


def obligations(tier="quick"):
    out = []
    info = {"functions": {}, "unsupported": [], "paths": 0}
    try:
        _m, node, _c = frontend.find(Q)
        info["functions"][Q] = frontend.source_hash(node)
    except frontend.ExtractionError as e:
        info["unsupported"].append(str(e))
    results = explore(harness)
    k = 0
    for r in results:
        if r.outcome == "unsupported":
            info["unsupported"].append(f"collect: {r.value}")
            continue
        k += 1
        for o in r.ctx.obligations:
            o.name = f"{o.name}.p{k}"
            out.append(o)
    info["paths"] += k
    if k == 0:
        info["unsupported"].append("collect: no completed path")
    return out, info
