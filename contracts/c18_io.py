"""C18.save / C18.load — contracts of mygrad._io.save and load.

save(file, t):  raises TypeError iff `t` is not a Tensor (np.savez not called);
                otherwise calls np.savez exactly once with the caller's `file`, data=t.data, and grad=t.grad
                present iff t.grad is not None; reads only (the property getter `grad` is the only thing
                evaluated on t -- it may fill the `_view_grad` cache); returns None.
load(file):     calls np.load(file) once; builds the tensor with tb.tensor(loaded["data"]) (so data, dtype and
                shape are those of the stored array -- C17); iff a "grad" entry exists calls
                backward(loaded["grad"]) on the new tensor (C14.seed then gives grad of equal value/shape/dtype);
                returns that tensor.
Axiom (trusted): np.savez/np.load round-trip arrays under their keys with equal value, dtype, shape.
"""
from __future__ import annotations

from pyvc import frontend
from pyvc.builtins_model import TypeToken, default_builtins
from pyvc.interp import Config, Ctx, Interp, Opaque, SymRaise, explore

IO = "mygrad._io"


class ArrV(Opaque):
    """An array value.  `origin` names the array whose value, shape and dtype it carries: np.asarray / np.asanyarray hand back their argument,
    np.array / np.copy / ndarray.copy a value-equal array (same origin); every other NumPy function is uninterpreted -- its result is an array
    about which nothing is known (a fresh origin), so a contract clause that needs "the stored array IS the tensor's data" is refuted instead of
    leaving the path outside the modelled subset."""

    def __init__(self, origin):
        super().__init__(origin)
        self.origin = origin

    def __sym_getattr__(self, interp, name):
        if name == "copy":
            return lambda *a, **k: ArrV(self.origin)
        return _ArrAttr(f"{self.origin}.{name}")

    def __sym_getitem__(self, interp, idx):
        return ArrV(f"{self.origin}[...]")

    def __sym_setitem__(self, interp, idx, v):
        return None


class _ArrAttr(Opaque):
    """an attribute of an array value: opaque when read, and when CALLED (an array method) it yields an array about which nothing is known"""

    def __call__(self, *a, **k):
        return ArrV(f"{self.what}(...)")


class NumpyShim:
    """np.<f> for every f the harness does not define: logged, result unrelated to its arguments"""

    ndarray = TypeToken("ndarray", lambda interp, v: isinstance(v, ArrV) or (isinstance(v, Opaque) and getattr(v, "what", "") == "ndarray"))

    def __init__(self, log):
        self._log = log

    def asarray(self, x, *a, **k):
        return x if not a and not k else ArrV(f"np.asarray({getattr(x, 'origin', x)!r}, ...)")

    asanyarray = asarray

    def array(self, x, *a, **k):
        return ArrV(x.origin) if isinstance(x, ArrV) and not a and set(k) <= {"copy"} else ArrV(f"np.array({getattr(x, 'origin', x)!r}, ...)")

    def copy(self, x, *a, **k):
        return ArrV(x.origin) if isinstance(x, ArrV) else ArrV("np.copy(?)")

    def __getattr__(self, name):
        if name.startswith("_"):
            raise AttributeError(name)

        def unknown(*a, **k):
            self._log.append(("np-call", name))
            return ArrV(f"np.{name}({', '.join(str(getattr(x, 'origin', x)) for x in a)})")

        return unknown


class FakeTensor:
    def __init__(self, has_grad, log):
        self.has_grad = has_grad
        self.log = log
        self.data_obj = ArrV("t.data")
        self.grad_obj = ArrV("t.grad") if has_grad else None

    def __sym_getattr__(self, interp, name):
        self.log.append(("read", name))
        if name == "data":
            return self.data_obj
        if name == "grad":
            return self.grad_obj
        # any other attribute (private caches such as _grad / _view_grad / _base) is outside save()'s frame: it is logged and
        # answered with an opaque value, and the `reads_only_data_and_grad` obligation reports it
        return Opaque(f"t.{name}")

    def __sym_setattr__(self, interp, name, v):
        self.log.append(("write", name))


class PathObj(Opaque):
    """a pathlib.Path: every method that derives another path (with_suffix, with_name, parent, /, resolve, ...) yields a DIFFERENT object, so a
    save/load that re-spells the caller's path is visible to the clause `same_file` (numpy itself decides about the .npz suffix)"""

    def __init__(self, what="a pathlib.Path"):
        super().__init__(what)

    def __sym_getattr__(self, interp, name):
        if name in ("suffix", "name", "stem"):
            return Opaque(f"{self.what}.{name}")
        return lambda *a, **k: PathObj(f"{self.what}.{name}(...)")


class PathLib:
    Path = TypeToken("Path", lambda interp, v: isinstance(v, PathObj))
    PurePath = TypeToken("PurePath", lambda interp, v: isinstance(v, PathObj))


def save_harness(kind, file_kind="opaque"):
    def h(ctx: Ctx):
        cfg = Config()
        cfg.builtins = default_builtins()
        cfg.module_overrides["pathlib"] = PathLib
        cfg.builtins["os.PathLike"] = PathLib.Path
        log = []
        calls = []

        class NP(NumpyShim):
            def savez(self, file, *a, **k):
                calls.append((file, a, k))
                return None

        class TB:
            Tensor = TypeToken("Tensor", lambda interp, v: isinstance(v, FakeTensor))

        cfg.module_overrides["numpy"] = NP(log)
        cfg.module_overrides["mygrad.tensor_base"] = TB
        interp = Interp(ctx, cfg)
        f = interp.global_lookup(interp.module(IO), "save")
        file = Opaque("file") if file_kind == "opaque" else PathObj()
        meta = dict(function=f"{IO}:save", case=kind, file=file_kind)
        tag = f"C18.save[{kind}]" if file_kind == "opaque" else f"C18.save[{kind},file=pathlib.Path]"
        if kind == "non-tensor":
            class NotATensor(Opaque):
                """an ndarray handed to save() by mistake: every attribute reads as something opaque, so that an implementation that lets it through
                reaches np.savez (clause `savez_not_called`) instead of leaving the model"""

                def __sym_getattr__(self_, interp_, name):
                    return Opaque(f"ndarray.{name}")

            for bad in (NotATensor("ndarray"), [1.0], 2.0, None):
                try:
                    interp.call(f, [file, bad], {})
                    ctx.oblige(f"{tag}.raises_TypeError", False, **meta)
                except SymRaise as e:
                    ctx.oblige(f"{tag}.raises_TypeError", e.exc.cls is TypeError, **meta)
            ctx.oblige(f"{tag}.savez_not_called", not calls, **meta)
            return
        t = FakeTensor(kind == "with-grad", log)
        r = interp.call(f, [file, t], {})
        ctx.oblige(f"{tag}.returns_None", r is None, **meta)
        ctx.oblige(f"{tag}.savez_called_once", len(calls) == 1, **meta)
        if len(calls) == 1:
            fobj, a, k = calls[0]
            ctx.oblige(f"{tag}.same_file", fobj is file and not a, **meta)
            # the array written under "data" carries the tensor's data: value, shape and dtype (the tensor's own array or a value-equal copy)
            ctx.oblige(f"{tag}.data_key", getattr(k.get("data"), "origin", None) == "t.data", got=repr(k.get("data")), **meta)
            if kind == "with-grad":
                ctx.oblige(f"{tag}.grad_key", set(k) == {"data", "grad"} and getattr(k.get("grad"), "origin", None) == "t.grad", got=repr(k.get("grad")), **meta)
            else:
                ctx.oblige(f"{tag}.no_grad_key", set(k) == {"data"}, **meta)
        ctx.oblige(f"{tag}.tensor_not_written", not any(op == "write" for op, _ in log), **meta)
        ctx.oblige(f"{tag}.reads_only_data_and_grad", all(n in ("data", "grad") or not n.startswith("_") for op, n in log if op != "np-call"), **meta)  # pure public attributes (base, shape, dtype, constant) may be read; private slots (_grad, _view_grad: they bypass the getter) may not

    return h


def load_harness(kind, file_kind="opaque"):
    def h(ctx: Ctx):
        cfg = Config()
        cfg.builtins = default_builtins()
        cfg.module_overrides["pathlib"] = PathLib
        cfg.builtins["os.PathLike"] = PathLib.Path
        events = []
        file = Opaque("file") if file_kind == "opaque" else PathObj()
        data_arr, grad_arr = ArrV("stored data"), ArrV("stored grad")

        class Loaded:
            def __sym_getitem__(self, interp, key):
                events.append(("getitem", key))
                return {"data": data_arr, "grad": grad_arr}[key]

            def __sym_contains__(self, interp, key):
                return key == "data" or (key == "grad" and kind == "with-grad")

        loaded = Loaded()

        class NewTensor:
            def __sym_getattr__(self, interp, name):
                if name == "backward":
                    def backward(g=None):
                        events.append(("backward", g))
                    return backward
                # anything else load() reads from / writes to the tensor it built is logged (not a crash): the clauses below say what it may do
                events.append(("read-new-tensor", name))
                return ArrV(f"new tensor.{name}")

            def __sym_setattr__(self, interp, name, v):
                events.append(("write-new-tensor", name))

        nt = NewTensor()

        class NP(NumpyShim):
            def load(self, fobj, *a, **k):
                events.append(("np.load", fobj, a, k))
                return loaded

        class TB:
            @staticmethod
            def tensor(x, *a, **k):
                events.append(("tb.tensor", x, a, k))
                return nt

        cfg.module_overrides["numpy"] = NP(events)
        cfg.module_overrides["mygrad.tensor_base"] = TB
        interp = Interp(ctx, cfg)
        f = interp.global_lookup(interp.module(IO), "load")
        meta = dict(function=f"{IO}:load", case=kind, file=file_kind)
        tag = f"C18.load[{kind}]" if file_kind == "opaque" else f"C18.load[{kind},file=pathlib.Path]"
        r = interp.call(f, [file], {})
        ctx.oblige(f"{tag}.returns_new_tensor", r is nt, **meta)
        loads = [e for e in events if e[0] == "np.load"]
        ctx.oblige(f"{tag}.np_load_once_with_file", len(loads) == 1 and loads[0][1] is file and not loads[0][2] and not loads[0][3], **meta)
        tens = [e for e in events if e[0] == "tb.tensor"]
        # default arguments only: tensor(x) copies and infers dtype/constant from the stored array (C17)
        ctx.oblige(f"{tag}.tensor_built_from_data_entry", len(tens) == 1 and getattr(tens[0][1], "origin", None) == "stored data" and not tens[0][2] and not tens[0][3], got=repr(tens[0][1]) if tens else None, **meta)
        # the gradient is restored THROUGH backward() (C14.seed then gives a gradient of the tensor's dtype, shape and layout with the stored
        # values); the freshly built tensor's private slots are not written behind its back
        if [e for e in events if e[0] == "write-new-tensor"]:
            # load() restores the gradient by another route than backward(): whether the array it stores has the stored values, dtype and shape is
            # not decidable over opaque arrays -- the deductive layer abstains (exit 2), the bounded round trips decide
            from pyvc.interp import Unsupported

            raise Unsupported("load() writes the new tensor's private slots instead of seeding through backward(): value equality with the stored gradient is outside this model")
        bw = [e for e in events if e[0] == "backward"]
        if kind == "with-grad":
            ctx.oblige(f"{tag}.gradient_reseeded", len(bw) == 1 and getattr(bw[0][1], "origin", None) == "stored grad", **meta)
        else:
            ctx.oblige(f"{tag}.no_backward_without_grad", not bw, **meta)

    return h


def obligations(tier="quick"):
    out = []
    info = {"functions": {}, "unsupported": [], "paths": 0}
    for q in (f"{IO}:save", f"{IO}:load"):
        try:
            _m, node, _c = frontend.find(q)
            info["functions"][q] = frontend.source_hash(node)
        except frontend.ExtractionError as e:
            info["unsupported"].append(str(e))
    hs = [(f"save[{k}]", save_harness(k)) for k in ("non-tensor", "with-grad", "no-grad")] + [(f"load[{k}]", load_harness(k)) for k in ("with-grad", "no-grad")]
    hs += [(f"save[{k},Path]", save_harness(k, "path")) for k in ("with-grad", "no-grad")] + [(f"load[{k},Path]", load_harness(k, "path")) for k in ("with-grad", "no-grad")]
    for name, h in hs:
        results = explore(h)
        k = 0
        for r in results:
            if r.outcome == "unsupported":
                info["unsupported"].append(f"{name}: {r.value}")
                continue
            k += 1
            for o in r.ctx.obligations:
                o.name = f"{o.name}.p{k}"
                out.append(o)
        info["paths"] += k
        if k == 0:
            info["unsupported"].append(f"{name}: no completed path")
    return out, info
