"""C14.seed / C01.sweep / C12.seed / C07.fresh — contract of Tensor.backward(self, grad=None)  (tracking on).

Callees replaced by their contracts: collect_all_tensors_and_clear_grads (C01.topo: fills `topo`, nulls the
gradient of self and of every collected tensor), Tensor._backward (C01.step through Operation.backward),
Tensor.clear_graph (C07.clear).  NumPy axioms: np.asarray(a, dtype) returns `a` itself iff it already has that
dtype (else a fresh cast copy of equal shape/value); np.full_like(a, 1.0) is a fresh array of a's shape, dtype and
(for compact a) layout filled with 1; np.multiply(x, y, dtype=d) is a fresh array of shape broadcast(x, y) and
value x*y, or raises ValueError when the shapes do not broadcast.

 constant self:  ensures only clear_graph() is called; no gradient is written anywhere
 otherwise:
   ensures  collect(self, seen, topo) is called first with an empty `seen` and an empty deque
   grad is None        -> seed = ones of self.shape / self.dtype, fresh                          (= VJP of sum at 1)
   grad given          -> g := grad.data if Tensor else grad;  a := asarray(g, self.dtype)
        a.shape == self.shape            -> seed = a                       (value of g, self.dtype)
        else broadcast(self.shape, a.shape) == self.shape -> seed = fresh array of self.shape, value of g  (= VJP of (L*g).sum())
        else                             -> raises ValueError, and self._grad is not assigned (one-directional broadcast)
   ensures  I1: seed.shape == self.shape, seed.dtype == self.dtype;  self._grad is seed
   ensures  OWNG for the seed: it owns its memory and is not the caller's array        [fails on this tree: F6]
   ensures  the caller's gradient array is not written
   sweep:   if self has a creator, _backward() is invoked on topo[0], topo[1], ... exactly once each, in order, and on
            nothing else; then clear_graph() is called on self (also when there is no creator)
"""
from __future__ import annotations

import z3

from pyvc import frontend
from pyvc.builtins_model import TypeToken, default_builtins
from pyvc.graphdom import BSHAPE, CLAYOUT, COMPACT, KLAYOUT, NDIM, SHAPE0, Heap, NdModel, TensorModel
from pyvc.interp import Config, Ctx, ExcInst, GlobalCell, Interp, LoopSpec, Opaque, SRef, SSeq, SymRaise, Unsupported, explore, to_z3
from lib.report import load_known_findings

TB = "mygrad.tensor_base"
GT = "mygrad._utils.graph_tracking"
I = z3.IntSort()


class Deque:
    def __init__(self):
        self.seq = None
        self.initial = None


DTKIND = z3.Function("DTKIND", I, I)
DTSIZE = z3.Function("DTSIZE", I, I)


def harness(grad_kind, refused=False):
    """refused=True: the sweep's callee _backward() raises InvalidBackprop at an arbitrary iteration (its contract C09.raise: it does so when it
    reaches a tensor whose consumers were cleared) -- the scenario of a back-propagation through a partially cleared graph"""

    def h(ctx: Ctx):
        cfg = Config()
        cfg.builtins = default_builtins()
        heap = Heap(ctx)
        interp = Interp(ctx, cfg)
        cfg.global_overrides[(GT, "TRACK_GRAPH")] = GlobalCell("TRACK_GRAPH", True)
        cfg.global_overrides[("mygrad._numpy_version", "NP_IS_V2")] = True
        TensorCls = interp.global_lookup(interp.module(TB), "Tensor")
        cfg.ref_models["Tensor"] = TensorModel(heap, TensorCls)
        cfg.ref_models["ndarray"] = NdModel(heap)
        H = ctx.heap
        top0 = heap.top
        me = SRef("Tensor", z3.Int("self"))
        ctx.assume(z3.And(1 <= me.ref, me.ref <= top0))
        data0 = H[("Tensor", "data")]
        shape0, dtype0, lay0, val0, base0 = (H[("ndarray", f)] for f in ("shape", "dtype", "layout", "val", "base"))
        dself = data0[me.ref]
        ctx.assume(z3.And(1 <= dself, dself <= top0))
        log = []
        # ---- NumPy axioms ----------------------------------------------------------------------------------
        nd = NdModel(heap)

        class NP:
            ndarray = TypeToken("ndarray", lambda i_, v: isinstance(v, SRef) and v.cls == "ndarray")

            @staticmethod
            def asarray(x, dtype=None, order=None, **k):
                log.append(("np.asarray", x, dtype))
                if isinstance(x, SRef) and x.cls == "ndarray":
                    if dtype is None:
                        return x
                    same = heap.get("ndarray", "dtype", x.ref) == to_z3(dtype)
                    if interp.truth(same):
                        return x
                    return heap.new_array(shape=heap.get("ndarray", "shape", x.ref), dtype=to_z3(dtype), base=0, layout=KLAYOUT(heap.get("ndarray", "layout", x.ref)), val=heap.get("ndarray", "val", x.ref))
                z = to_z3(x)
                if z is None:
                    raise Unsupported(f"np.asarray({x!r})")
                if z3.is_int(z):
                    z = z3.ToReal(z)
                return heap.new_array(shape=SHAPE0, dtype=to_z3(dtype) if dtype is not None else ctx.fresh("dt", "int"), base=0, layout=CLAYOUT(SHAPE0), val=z)

            @staticmethod
            def full_like(a, fill_value=None, **k):
                lay = heap.get("ndarray", "layout", a.ref)
                return heap.new_array(shape=heap.get("ndarray", "shape", a.ref), dtype=heap.get("ndarray", "dtype", a.ref), base=0,
                                      layout=z3.If(COMPACT(lay), lay, KLAYOUT(lay)), val=to_z3(fill_value))

            @staticmethod
            def empty_like(a, **k):
                lay = heap.get("ndarray", "layout", a.ref)
                return heap.new_array(shape=heap.get("ndarray", "shape", a.ref), dtype=heap.get("ndarray", "dtype", a.ref), base=0,
                                      layout=z3.If(COMPACT(lay), lay, KLAYOUT(lay)), val=ctx.fresh("uninit", "real"))

            @staticmethod
            def multiply(x, y, dtype=None, **k):
                sx, sy = heap.get("ndarray", "shape", x.ref), heap.get("ndarray", "shape", y.ref)
                if ctx.choose(2, "np.multiply broadcast") == 0:
                    ctx.notes.append("np.multiply raises (shapes do not broadcast)")
                    ctx.ghost["mul_raised"] = True
                    raise SymRaise(ExcInst(ValueError, ("operands could not be broadcast together",)))
                shp = z3.If(sx == sy, sx, BSHAPE(sx, sy))
                # the memory layout of a ufunc's fresh output depends on the strides of all operands: left unconstrained
                return heap.new_array(shape=shp, dtype=to_z3(dtype) if dtype is not None else ctx.fresh("dt", "int"), base=0, layout=ctx.fresh("lay", "int"),
                                      val=heap.get("ndarray", "val", x.ref) * heap.get("ndarray", "val", y.ref))

        RESIZEVAL = z3.Function("RESIZEVAL", z3.RealSort(), I, I, z3.RealSort())  # np.resize fills by cycling the flattened input

        def np_broadcast_shapes(*shapes):
            sa, sb = to_z3(shapes[0]), to_z3(shapes[1])
            if ctx.choose(2, "np.broadcast_shapes") == 0:
                raise SymRaise(ExcInst(ValueError, ("shape mismatch",)))
            return z3.If(sa == sb, sa, BSHAPE(sa, sb))

        def np_resize(a, new_shape):
            ns = to_z3(new_shape)
            return heap.new_array(shape=ns, dtype=heap.get("ndarray", "dtype", a.ref), base=0, layout=CLAYOUT(ns),
                                  val=RESIZEVAL(heap.get("ndarray", "val", a.ref), heap.get("ndarray", "shape", a.ref), ns))

        def np_broadcast_to(a, shape, **k):
            ns = to_z3(shape)
            if ctx.choose(2, "np.broadcast_to") == 0:
                raise SymRaise(ExcInst(ValueError, ("cannot broadcast",)))
            ctx.assume(z3.If(heap.get("ndarray", "shape", a.ref) == ns, True, BSHAPE(heap.get("ndarray", "shape", a.ref), ns) == ns))
            return heap.new_array(shape=ns, dtype=heap.get("ndarray", "dtype", a.ref), base=a.ref, layout=ctx.fresh("lay", "int"), val=heap.get("ndarray", "val", a.ref))

        NP.broadcast_shapes = staticmethod(np_broadcast_shapes)
        NP.resize = staticmethod(np_resize)
        NP.broadcast_to = staticmethod(np_broadcast_to)
        cfg.module_overrides["numpy"] = NP

        # a dtype is a symbolic id; its `.kind` / `.itemsize` are uninterpreted functions of the id (equal dtypes: equal kind and width)
        class _Kind:
            def __init__(self, e):
                self.e = e

            def __sym_eq__(self, interp_, other):
                if isinstance(other, str) and len(other) == 1:
                    return self.e == ord(other)
                if isinstance(other, _Kind):
                    return self.e == other.e
                raise Unsupported(f"dtype.kind compared with {other!r}")

            def __sym_contains_in__(self, interp_, container):
                raise Unsupported("dtype.kind membership")

        def dtype_attr(interp_, e, name):
            if not z3.is_int(e):
                return None
            if name == "kind":
                return _Kind(DTKIND(e))
            if name == "itemsize":
                ctx.assume(DTSIZE(e) >= 1)
                return DTSIZE(e)
            return None

        cfg.expr_attr_hook = dtype_attr
        # ---- callee contracts --------------------------------------------------------------------------------
        n = z3.Int("n_topo")
        ctx.assume(n >= 0)
        TOPO = z3.Array("topo", I, I)
        dq = Deque()
        cfg.builtins["collections.deque"] = lambda init=(): (setattr(dq, "initial", list(init)), dq)[1]

        def collect_contract(interp_, args, kwargs):
            t, seen, topo = args[0], args[1], args[2]
            log.append(("collect", t, seen, topo))
            ctx.oblige("C01.sweep.collect_called_on_self_with_empty_sets", z3.And(t.ref == me.ref, z3.BoolVal(seen == set() and topo is dq and dq.initial == [])), function=f"{TB}:Tensor.backward")
            # C01.topo contract: gradients of self and of every collected tensor are None afterwards
            heap.set("Tensor", "_grad", me.ref, z3.IntVal(0))
            heap.set("Tensor", "_view_grad", me.ref, z3.IntVal(0))
            dq.seq = SSeq(n, lambda i: SRef("Tensor", z3.Select(TOPO, to_z3(i))), "deque", "topo_sorted_tensors")
            return None

        cfg.summaries["mygrad._utils:collect_all_tensors_and_clear_grads"] = collect_contract
        dq_iter = lambda: dq.seq  # noqa
        Deque.__sym_iter__ = None

        def clear_contract(interp_, args, kwargs):
            log.append(("clear_graph", args[0]))
            return None

        def backward_contract(interp_, args, kwargs):
            k = ctx.ghost.get("cur_k")
            log.append(("_backward", args[0], k))
            ctx.oblige("C01.sweep.backward_on_kth_of_topo", (args[0].ref == TOPO[k]) if k is not None else False, function=f"{TB}:Tensor.backward")
            if refused:
                log.append(("refused",))
                raise SymRaise(ExcInst(InvalidBackpropCls, ("a tensor upstream had its graph cleared",)))
            return None

        InvalidBackpropCls = type("InvalidBackprop", (Exception,), {})
        cfg.summaries[f"{TB}:Tensor.clear_graph"] = clear_contract
        cfg.summaries[f"{TB}:Tensor._backward"] = backward_contract
        g_entry = H[("Tensor", "_grad")]

        def inv(interp_, env, k):
            return []  # the sweep's effect on gradients is the callee's contract (C01.step); this loop only sequences the calls

        spec = LoopSpec(invariant=inv, modifies=("t",), heap_modifies=[])
        spec.expect_iterable = (n, lambda j: TOPO[j])  # the sweep visits the whole topological order, front to back
        cfg.loop_specs[(f"{TB}:Tensor.backward", 0)] = spec
        # iteration over the deque = iteration over the sequence the collector produced
        orig_eval_for = interp.x_For

        def x_for(node, frame):
            return orig_eval_for(node, frame)

        # ---- the incoming gradient ---------------------------------------------------------------------------
        garr = None
        if grad_kind == "none":
            grad = None
        elif grad_kind == "array":
            garr = SRef("ndarray", z3.Int("g"))
            ctx.assume(z3.And(1 <= garr.ref, garr.ref <= top0, garr.ref != dself))
            grad = garr
        elif grad_kind == "tensor":
            gt = SRef("Tensor", z3.Int("gt"))
            ctx.assume(z3.And(1 <= gt.ref, gt.ref <= top0, gt.ref != me.ref))
            garr = SRef("ndarray", data0[gt.ref])
            ctx.assume(z3.And(1 <= garr.ref, garr.ref <= top0, garr.ref != dself))
            grad = gt
        else:
            grad = z3.Real("scalar_seed")
        f, _ = TensorCls.lookup(interp, "backward")
        meta = dict(function=f"{TB}:Tensor.backward", grad=grad_kind)
        tag = f"C14.seed[grad={grad_kind}]"
        const = H[("Tensor", "_constant")][me.ref]

        class DequeIter:
            pass

        # make `for t in topo_sorted_tensors` see the SSeq
        real_iter = interp.iterate_concrete
        interp_eval = interp.eval

        def eval_hook(node, frame):
            v = interp_eval(node, frame)
            return dq.seq if (v is dq and dq.seq is not None) else v

        interp.eval = eval_hook
        try:
            r = interp.call(f, [me, grad], {})
        except SymRaise as e:
            cur = ctx.heap
            if refused and e.exc.cls is InvalidBackpropCls:
                # C09: the refusal is loud AND repeatable -- the same exception comes out, and the terminal's graph is not cleared on the way (a
                # cleared terminal would make the next backward() a silent no-op that leaves stale / partial gradients behind)
                after = log[log.index(("refused",)) + 1:] if ("refused",) in log else None
                ctx.oblige(f"C09.sweep[grad={grad_kind}].refusal_propagates_and_leaves_the_graph_uncleared", after is not None and not any(ev[0] == "clear_graph" for ev in after) and not any(ev[0] == "_backward" for ev in after),
                           after=repr(after), **meta)
                ctx.oblige(f"C09.sweep[grad={grad_kind}].terminal_keeps_its_creator", cur[("Tensor", "_creator")][me.ref] == H[("Tensor", "_creator")][me.ref], **meta)
                return
            if e.exc.cls is ValueError and grad_kind != "none":
                a_shape = ctx.ghost.get("a_shape")
                ctx.oblige(f"{tag}.rejected_seed_writes_no_gradient", cur[("Tensor", "_grad")][me.ref] == 0, raised="ValueError", **meta)
                ctx.oblige(f"{tag}.no_backprop_after_rejection", not any(ev[0] == "_backward" for ev in log), raised="ValueError", **meta)
                # only a seed whose shape is not self.shape can be rejected
                asarr = [ev for ev in log if ev[0] == "np.asarray"]
                ctx.oblige(f"{tag}.collect_before_rejection", bool(log) and log[0][0] == "collect", raised="ValueError", **meta)
            else:
                ctx.oblige(f"{tag}.no_other_exception", False, raised=e.exc.cls_name(), **meta)
            return
        cur = ctx.heap
        if interp.truth(const) if False else None:
            pass
        # constant receiver: only clear_graph
        is_const_path = any(z3.is_true(z3.simplify(z3.Implies(z3.And(*ctx.pc), const))) for _ in [0]) if False else None
        events = [ev[0] for ev in log]
        if events == ["clear_graph"]:
            ctx.oblige(f"{tag}.constant_receiver_only_clears", const, **meta)
            ctx.oblige(f"{tag}.constant_receiver_no_grad_written", cur[("Tensor", "_grad")] == g_entry, **meta)
            return
        ctx.oblige(f"{tag}.nonconstant_receiver", z3.Not(const), **meta)
        ctx.oblige(f"{tag}.collect_first", bool(events) and events[0] == "collect", **meta)
        ctx.oblige(f"{tag}.clear_graph_last_on_self", events[-1] == "clear_graph" and log[-1][1].ref.eq(me.ref) and events.count("clear_graph") == 1, **meta)
        seed = cur[("Tensor", "_grad")][me.ref]
        shp, dt, bs, ly, vl = (cur[("ndarray", f)] for f in ("shape", "dtype", "base", "layout", "val"))
        ctx.oblige(f"{tag}.I1.seed_is_array", seed != 0, **meta)
        ctx.oblige(f"{tag}.I1.shape", shp[seed] == shape0[dself], **meta)
        ctx.oblige(f"{tag}.I1.dtype", dt[seed] == dtype0[dself], **meta)
        if grad_kind == "none":
            ctx.oblige(f"{tag}.ones", vl[seed] == 1, **meta)
            ctx.oblige(f"{tag}.C12.seed.fresh_owner", z3.And(seed > top0, bs[seed] == 0), **meta)
            ctx.oblige(f"{tag}.C06.layout", z3.Implies(COMPACT(lay0[dself]), ly[seed] == lay0[dself]), **meta)
        elif grad_kind == "scalar":
            ctx.oblige(f"{tag}.value_of_g", vl[seed] == grad, **meta)
            ctx.oblige(f"{tag}.C12.seed.fresh_owner", z3.And(seed > top0, bs[seed] == 0), **meta)
            ctx.oblige(f"{tag}.C06.layout", z3.Implies(COMPACT(lay0[dself]), ly[seed] == lay0[dself]), **meta)
        else:
            ctx.oblige(f"{tag}.value_of_g", vl[seed] == val0[garr.ref], **meta)
            # C06.I1': the stored gradient has the memory layout of the tensor's data, whatever the layout of the caller's seed
            # (views of the terminal tensor take their gradient as the same view of this array)
            ctx.oblige(f"{tag}.C06.layout", z3.Implies(COMPACT(lay0[dself]), ly[seed] == lay0[dself]), **meta)
            owned = z3.And(seed != garr.ref, bs[seed] == 0, seed > top0)
            ctx.oblige(f"{tag}.C12.seed.owned_not_callers_array", owned, kind="C12.seed", **meta)
            if any(f_.get("id") == "F6" for f_ in load_known_findings().get("findings", [])):
                # known finding F6: region = the seed already has self's dtype, shape and memory layout (asarray returns it as-is and no layout copy is made)
                region = z3.And(dtype0[garr.ref] == dtype0[dself], shape0[garr.ref] == shape0[dself], lay0[garr.ref] == lay0[dself])
                ctx.oblige(f"{tag}.C12.seed.owned_not_callers_array.outside_F6", z3.Implies(z3.Not(region), owned), kind="C12.seed", **meta)
            ctx.oblige(f"{tag}.C12.seed.callers_array_unwritten", z3.And(vl[garr.ref] == val0[garr.ref], shp[garr.ref] == shape0[garr.ref], dt[garr.ref] == dtype0[garr.ref]), **meta)
        ctx.oblige(f"{tag}.C12.data_unwritten", vl[dself] == val0[dself], **meta)
        # a terminal whose own graph was cleared earlier but whose base link lingers is detached from that base, so that the getter
        # reports the seed stored here rather than a window onto the old base's gradient; a live view keeps its base
        b0, c0 = H[("Tensor", "_base")][me.ref], H[("Tensor", "_creator")][me.ref]
        ctx.oblige(f"{tag}.stale_base_link_dropped", cur[("Tensor", "_base")][me.ref] == z3.If(z3.And(b0 != 0, c0 == 0), 0, b0), **meta)
        # sweep
        nb = events.count("_backward")
        has_creator = H[("Tensor", "_creator")][me.ref] != 0
        ctx.oblige(f"{tag}.sweep_only_with_creator", z3.Implies(z3.Not(has_creator), z3.BoolVal("loop" not in ctx.ghost and nb == 0)), **meta)

    return h


def obligations(tier="quick"):
    out = []
    info = {"functions": {}, "unsupported": [], "paths": 0}
    for q in (f"{TB}:Tensor.backward", f"{TB}:asarray"):
        try:
            _m, node, _c = frontend.find(q)
            info["functions"][q] = frontend.source_hash(node)
        except frontend.ExtractionError as e:
            info["unsupported"].append(str(e))
    for gk, refused in [(g_, False) for g_ in ("none", "array", "tensor", "scalar")] + [("none", True), ("array", True)]:
        results = explore(harness(gk, refused))
        k = 0
        for r in results:
            if r.outcome == "unsupported":
                info["unsupported"].append(f"backward[{gk}]: {r.value}")
                continue
            k += 1
            for o in r.ctx.obligations:
                o.name = f"{o.name}.p{k}"
                out.append(o)
        info["paths"] += k
        if k == 0:
            info["unsupported"].append(f"backward[{gk}]: no completed path")
    return out, info
